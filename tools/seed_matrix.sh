#!/bin/bash
# Runs every seeded change against the check of the property it breaks (scratch worktrees; /repo untouched).
# usage: tools/seed_matrix.sh [tier] [jobs]
T="${1:-quick}"; J="${2:-4}"
cd /verif
ls -d seeded/*/ | sed 's#seeded/##; s#/##' | xargs -P "$J" -I{} bash -c '
  id={}; prop=${id%%-*}
  out=$(tools/mutcheck.sh seeded/$id/patch.diff $prop '"$T"' 2>&1)
  rc=$(echo "$out" | grep -o "exit=[0-9]*" | tail -1)
  sigs=$(echo "$out" | grep "sig=" | sed "s/^ *[0-9]* *sig=//" | paste -sd" " | cut -c1-160)
  echo "$id $prop $rc $sigs"
' | sort
