HOOK_COMMITS = []
NOT_CLAIMED = {}
add("C01", "exploration", "runtime monitor: boundary send/receive history vs prefix/equality oracle, reference-transport calibration, race detector (thorough)",
    "Every message received on either side is compared online with the sender's k-th attempted message over thousands of generated scripts, sizes and concurrent batches on the real in-process and HTTP/1.1 transports; held on the executions observed, not a proof.",
    "Trusts the harness actors' own event log and google.golang.org/grpc as calibration reference; HTTP scripts are half-duplex; interleavings are those the scheduler and concurrent batches produced.", "DESIGN.md 4/C01")
add("C02", "exploration", "runtime monitor: handler-return vs client-outcome oracle over generated status/error scripts, reference-transport calibration, GC-pressure schedule",
    "The client's terminal result (status.Convert) is compared with the handler's return value for ~1.2k (quick) generated scripts per run covering 20 codes, hostile messages, details, plain/context/EOF errors at every response position, plus lost (undecodable/unencodable) responses and a deterministic GC schedule; held on those executions.",
    "Expected statuses are those the standard transport delivers (calibrated per script); status messages compared modulo U+FFFD sanitising; known finding F-C02-1 (unary HTTP status message in a header) is matched by signature.", "DESIGN.md 4/C02")
add("C14", "exploration", "runtime monitor: exhaustive code x context x deadline x renderer matrix through the real server and client, compared with the documented table parsed at run time",
    "Every cell of the finite matrix (20 codes x request-cancelled x RPC-deadline-expired x 3 renderers) is executed through httpgrpc.Server.ServeHTTP and the recorded reply is decoded by httpgrpc.Channel; all HTTP statuses 100..599 without the status header and random contradicting headers are fed to the client. The matrix is exhaustive; codes outside it are sampled.",
    "The documented table is read from the doc comment of DefaultErrorRenderer in /repo at run time; ServeHTTP is driven with an httptest recorder (no sockets).", "DESIGN.md 4/C14")
