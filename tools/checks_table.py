HOOK_COMMITS = []
NOT_CLAIMED = {}
add("C01", "exploration", "runtime monitor: boundary send/receive history vs prefix/equality oracle, reference-transport calibration, race detector (thorough)",
    "Every message received on either side is compared online with the sender's k-th attempted message over thousands of generated scripts, sizes and concurrent batches on the real in-process and HTTP/1.1 transports; held on the executions observed, not a proof.",
    "Trusts the harness actors' own event log and google.golang.org/grpc as calibration reference; HTTP scripts are half-duplex; interleavings are those the scheduler and concurrent batches produced.", "DESIGN.md 4/C01")
