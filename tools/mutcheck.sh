#!/bin/bash
# usage: tools/mutcheck.sh <patch.diff> <Cxx> [quick|thorough]
# Applies a seeded change to a scratch worktree of /repo (never to /repo itself), runs the
# check against that worktree (VERIF_REPO), prints the verdict lines, removes the worktree.
set -u
P="$(realpath "$1")"; ID="$2"; T="${3:-quick}"
W=$(mktemp -d /tmp/mutwt.XXXXXX); O=$(mktemp -d /tmp/mutout.XXXXXX)
git -C /repo worktree add --detach -q "$W" HEAD 2>/dev/null || { rmdir "$W"; git -C /repo worktree add --detach -q "$W" HEAD; }
cleanup() { git -C /repo worktree remove --force "$W" 2>/dev/null; rm -rf "$W" "$O"; git -C /repo worktree prune; }
trap cleanup EXIT
cd "$W" || exit 2
if ! git apply "$P" 2>/dev/null && ! git apply --3way "$P" 2>/dev/null; then echo "APPLY-FAILED $P"; exit 3; fi
( export GOFLAGS=-mod=mod GOPROXY=off GOSUMDB=off GOTOOLCHAIN=local; go build ./... ) || { echo "MUTANT DOES NOT BUILD"; exit 4; }
cd /verif && VERIF_REPO="$W" VERIF_OUT_DIR="$O" ./check "$ID" "$T" > "$O/log" 2>&1; rc=$?
grep -a "^VIOLATION\|^SUMMARY\|^INTERNAL\|^INCONC" "$O/log" | cut -c1-220 | head -6
grep -a "^  sig=" "$O/log" | sort | uniq -c | head -8
echo "exit=$rc"
