#!/bin/bash
# usage: tools/mutcheck.sh <patch.diff> <Cxx> [quick|thorough]  -- applies a seeded change to /repo, runs the check, reverts.
set -u
P="$(realpath "$1")"; ID="$2"; T="${3:-quick}"
cd /repo || exit 2
if [ -n "$(git status --porcelain)" ]; then echo "repo not clean"; exit 2; fi
if ! git apply "$P" 2>/dev/null && ! git apply --3way "$P" 2>/dev/null; then echo "APPLY-FAILED $P"; git reset -q --hard; exit 3; fi
( export GOFLAGS=-mod=mod GOPROXY=off GOSUMDB=off GOTOOLCHAIN=local; go build ./... ) || { echo "MUTANT DOES NOT BUILD"; git checkout -- .; git reset -q; exit 4; }
cd /verif && VERIF_DIR_KEEP=1 ./check "$ID" "$T" > /tmp/mutcheck.$$.log 2>&1; rc=$?
grep -a "^VIOLATION\|^SUMMARY\|^INTERNAL\|^INCONC" /tmp/mutcheck.$$.log | cut -c1-220 | head -8
grep -a "^  sig=" /tmp/mutcheck.$$.log | sort | uniq -c | head -8
rm -f /tmp/mutcheck.$$.log
cd /repo && git reset -q && git checkout -- . && git clean -fdq
echo "exit=$rc"
