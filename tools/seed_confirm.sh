#!/bin/bash
# usage: tools/seed_confirm.sh <workdir-id> <A|B> [<save-as, e.g. C01-C>]  -- confirms a sub-agent's seeded change in its
# scratch worktree /tmp/mut/<workdir-id> (deliverables in /tmp/mut/<workdir-id>-out) and files it under /verif/seeded/<save-as>
set -u
export GOFLAGS=-mod=mod GOPROXY=off GOSUMDB=off GOTOOLCHAIN=local
ID="$1"; L="$2"; SAVE="${3:-$1-$2}"; PROP="${SAVE%%-*}"; W=/tmp/mut/$ID; O=/tmp/mut/$ID-out
PATCH=$O/$L.diff; DEMO=$O/${L}_demo_test.go
[ -f "$PATCH" ] && [ -f "$DEMO" ] || { echo "missing $PATCH or $DEMO"; exit 2; }
cd $W || exit 2
git reset -q --hard; git clean -fdq; git checkout -q --detach main || exit 2
DIR=$(head -5 "$DEMO" | grep -o 'place in: *[^ ]*' | head -1 | sed 's/place in: *//; s#/*$##')
[ -n "$DIR" ] || DIR=.
[ "$DIR" = "repo root" ] && DIR=.
[ -d "$DIR" ] || DIR=.
TESTS=$(grep -o '^func Test[A-Za-z0-9_]*' "$DEMO" | sed 's/func //' | paste -sd'|')
res() { echo "$1"; }
cp "$DEMO" "$DIR/zz_seed_demo_test.go"
go test -vet=off -count=1 -run "^($TESTS)\$" ./$DIR/ > /tmp/sc.$$.1 2>&1; PRISTINE_DEMO=$?
rm -f "$DIR/zz_seed_demo_test.go"
if ! git apply "$PATCH" 2>/dev/null && ! git apply --3way "$PATCH" 2>/dev/null; then echo "APPLY-FAILED"; git reset -q --hard; exit 3; fi
git reset -q
go build ./... > /tmp/sc.$$.b 2>&1; BUILD=$?
go test -vet=off -count=1 ./... > /tmp/sc.$$.2 2>&1; SUITE=$?
cp "$DEMO" "$DIR/zz_seed_demo_test.go"
go test -vet=off -count=1 -run "^($TESTS)\$" ./$DIR/ > /tmp/sc.$$.3 2>&1; MUT_DEMO=$?
rm -f "$DIR/zz_seed_demo_test.go"
git diff > /tmp/sc.$$.diff
git reset -q --hard; git clean -fdq
echo "$SAVE: demo_on_pristine_exit=$PRISTINE_DEMO build=$BUILD suite_with_change_exit=$SUITE demo_with_change_exit=$MUT_DEMO dir=$DIR tests=$TESTS"
if [ $PRISTINE_DEMO -eq 0 ] && [ $BUILD -eq 0 ] && [ $SUITE -eq 0 ] && [ $MUT_DEMO -ne 0 ]; then
  D=/verif/seeded/$SAVE; mkdir -p $D
  cp /tmp/sc.$$.diff $D/patch.diff; cp "$DEMO" $D/demo_test.go
  python3 - "$PROP" "$L" "$DIR" "$TESTS" "$O/NOTES.md" "$D" <<'PY'
import json,sys,re
pid,l,d,tests,notes,out=sys.argv[1:]
txt=open(notes).read() if notes else ''
# pick the section about this mutant
sec=txt
m=re.split(r'(?mi)^#+ .*mutant\s*B.*$', txt)
if len(m)==2: sec = m[0] if l=='A' else m[1]
meta={"breaks_property":pid,"label":l,"origin":"independent sub-agent given only the property text and a scratch worktree","demo_dir":d,"demo_tests":tests,
 "confirmed":{"go build ./... with change":"ok","go test -vet=off -count=1 ./... with change":"pass","demo with change":"FAIL","demo without change (current /repo HEAD)":"pass"},
 "agent_notes":sec.strip()[:3000]}
json.dump(meta,open(out+'/meta.json','w'),indent=1)
PY
  echo "CONFIRMED -> $D"
else
  echo "NOT CONFIRMED"; tail -5 /tmp/sc.$$.1 /tmp/sc.$$.2 /tmp/sc.$$.3 | cut -c1-200
fi
rm -f /tmp/sc.$$.*
