#!/usr/bin/env python3
"""Regenerates /verif/MANIFEST.json from the table below (single source of truth)."""
import json, os, subprocess
V = os.path.dirname(os.path.dirname(os.path.abspath(__file__)))
ENV = "GOFLAGS=-mod=mod GOPROXY=off GOSUMDB=off GOTOOLCHAIN=local"

# id -> (level category, technique, level text, level note, design ref)
CHECKS = {}
def add(pid, cat, technique, text, note, ref):
    CHECKS[pid] = dict(cat=cat, technique=technique, text=text, note=note, ref=ref)

exec(open(os.path.join(V, "tools", "checks_table.py")).read())

props = [json.loads(l) for l in open(os.path.join(V, "properties.jsonl"))]
checks, na = [], []
for p in props:
    pid = p["id"]
    if pid in CHECKS:
        c = CHECKS[pid]
        checks.append({
            "property_id": pid,
            "quick_cmd": f"./check {pid} quick",
            "thorough_cmd": f"./check {pid} thorough",
            "evidence_file": f"/verif/evidence/{pid}.json",
            "replay_cmd_template": "./check --replay {path}",
            "engine": "vcheck",
            "level_claimed": {"category": c["cat"], "text": c["text"], "design_ref": c["ref"]},
            "level_note": c["note"],
            "technique": c["technique"],
        })
    else:
        na.append({"property_id": pid, "reason": NOT_CLAIMED.get(pid, "check not built yet in this round (runtime monitor planned in DESIGN.md section 4); not claimed until it exists")})

hooks_commits = HOOK_COMMITS
m = {
    "version": 1,
    "setup_cmd": f"cd /verif/harness && {ENV} go build -tags verif -o /dev/null ./cmd/vcheck && {ENV} go build -race -tags verif -o /dev/null ./cmd/vcheck",
    "hooks": {
        "guard": "verif",
        "enable": "go build -tags verif (the harness module replaces github.com/fullstorydev/grpchan with /repo, so every check compiles /repo's working tree with the tag on)",
        "baseline_off_cmd": f"cd /repo && {ENV} go test -json -vet=off -count=1 -timeout 25m ./...",
        "source_commits": hooks_commits,
        "add_only": True,
    },
    "engines": [{"name": "vcheck", "path": "/verif/harness", "serves_properties": sorted(CHECKS), "kind_free_text": "Go harness: scripted RPC actors, gated schedules, boundary event logs and offline oracles over executions of the real packages; child process per run; race detector in thorough tiers"}],
    "checks": checks,
    "notes": "Technique family: runtime monitoring. ./check <id> <tier> rebuilds the harness against /repo's working tree with -tags verif, runs the workload in a child process and writes evidence/<id>.json. Known findings: /verif/KNOWN_FINDINGS.txt.",
    "not_applicable": na,
}
json.dump(m, open(os.path.join(V, "MANIFEST.json"), "w"), indent=1)
print("checks:", len(checks), "not claimed:", len(na))
