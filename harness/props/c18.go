package props

import (
	"fmt"
	"math/rand"
	"reflect"

	tpb "github.com/fullstorydev/grpchan/grpchantesting"
	"github.com/fullstorydev/grpchan/httpgrpc"
	"github.com/fullstorydev/grpchan/inprocgrpc"
	protov1 "github.com/golang/protobuf/proto"
	"github.com/jhump/protoreflect/desc"
	"github.com/jhump/protoreflect/dynamic"
	"google.golang.org/grpc/encoding"
	grpcproto "google.golang.org/grpc/encoding/proto"
	"google.golang.org/protobuf/proto"
	"google.golang.org/protobuf/types/known/anypb"
	"google.golang.org/protobuf/types/known/emptypb"
	"google.golang.org/protobuf/types/known/structpb"
	"google.golang.org/protobuf/types/known/timestamppb"
	"google.golang.org/protobuf/types/known/wrapperspb"

	"verifharness/core"
)

func init() { core.Register("C18", checkC18) }

type clonerCfg struct {
	name string
	c    inprocgrpc.Cloner
	// crossRep: generated<->dynamic copies are required to work
	crossRep bool
	// refuses: mismatched destination types must be refused
	refuses bool
}

func cloners() []clonerCfg {
	return []clonerCfg{
		{"ProtoCloner", inprocgrpc.ProtoCloner{}, true, true},
		{"CodecCloner(proto)", inprocgrpc.CodecCloner(encoding.GetCodec(grpcproto.Name)), false, false},
		{"CloneFunc(proto.Clone)", inprocgrpc.CloneFunc(func(in interface{}) (interface{}, error) {
			pm, ok := in.(protov1.Message)
			if !ok {
				return nil, fmt.Errorf("not a proto message: %T", in)
			}
			return protov1.Clone(pm), nil
		}), false, true},
		{"CopyFunc(ProtoCloner.Copy)", inprocgrpc.CopyFunc(func(out, in interface{}) error { return inprocgrpc.ProtoCloner{}.Copy(out, in) }), true, true},
	}
}

// genTyped returns a random message of one of the available generated types
// and a fully populated, different message of the same type.
func genTyped(r *rand.Rand) (src, full proto.Message, tname string) {
	switch r.Intn(8) {
	case 0, 1, 2:
		m := genMsg(r, fmt.Sprintf("c18-%d", r.Intn(1e6)), false)
		return m, fullMessage(r), "Message"
	case 3:
		t := &httpgrpc.HttpTrailer{Code: int32(r.Intn(20)), Message: pick(r, "", "m", "ünï")}
		if r.Intn(2) == 0 {
			t.Metadata = map[string]*httpgrpc.TrailerValues{"k": {Values: []string{"a", "b"}}, "e": {}}
		}
		if r.Intn(2) == 0 {
			t.Details = genDetails(r)
		}
		f := &httpgrpc.HttpTrailer{Code: 77, Message: "old", Metadata: map[string]*httpgrpc.TrailerValues{"old": {Values: []string{"o"}}, "k": {Values: []string{"zz"}}}, Details: []*anypb.Any{genAny(r, 0), genAny(r, 0)}}
		return t, f, "HttpTrailer"
	case 4:
		return genAny(r, 0), &anypb.Any{TypeUrl: "old/url", Value: []byte("old value bytes")}, "Any"
	case 5:
		s, _ := structpb.NewStruct(map[string]any{"n": float64(r.Intn(100)), "l": []any{"x", 1.5, nil, map[string]any{"deep": true}}, "s": pick(r, "", "str")})
		f, _ := structpb.NewStruct(map[string]any{"old": "value", "n": "was string"})
		return s, f, "Struct"
	case 6:
		return timestamppb.New(timeUnix(r)), &timestamppb.Timestamp{Seconds: 1, Nanos: 2}, "Timestamp"
	default:
		if r.Intn(2) == 0 {
			return &emptypb.Empty{}, &emptypb.Empty{}, "Empty"
		}
		return wrapperspb.Bytes(randBytes(r, r.Intn(50))), wrapperspb.Bytes([]byte("old bytes value")), "BytesValue"
	}
}

func fullMessage(r *rand.Rand) *tpb.Message {
	a1, _ := anypb.New(wrapperspb.String("old detail"))
	return &tpb.Message{
		Payload: []byte("OLD PAYLOAD that must disappear"), Count: 987654, Code: 13, DelayMillis: 99,
		Headers:  map[string][]byte{"old": []byte("h"), "k": []byte("stale"), "": []byte("e")},
		Trailers: map[string][]byte{"oldt": []byte("t")}, ErrorDetails: []*anypb.Any{a1, a1},
	}
}

func newOf(m proto.Message) proto.Message {
	return reflect.New(reflect.TypeOf(m).Elem()).Interface().(proto.Message)
}

func toDynamic(m proto.Message) (*dynamic.Message, error) {
	md, err := desc.LoadMessageDescriptorForMessage(protov1.MessageV1(m))
	if err != nil {
		return nil, err
	}
	dm := dynamic.NewMessage(md)
	if err := dm.ConvertFrom(protov1.MessageV1(m)); err != nil {
		return nil, err
	}
	return dm, nil
}

func dynEqualsGen(dm *dynamic.Message, m proto.Message) bool {
	back := newOf(m)
	if err := dm.ConvertTo(protov1.MessageV1(back)); err != nil {
		return false
	}
	return proto.Equal(back, m)
}

func checkC18(e *core.Env) {
	curEnv = e
	e.SetRule("random messages of {test Message, HttpTrailer, Any, Struct, Timestamp, Empty, BytesValue} and dynamic messages of the same descriptors x adapters {ProtoCloner, CodecCloner, CloneFunc, CopyFunc} x operations {Clone, Copy into empty, Copy into fully populated destination, generated<->dynamic, mismatched / non-proto destinations}; oracle: equality (proto.Equal + deterministic bytes), source snapshot unchanged, address-disjointness walk, no residue; distinct = (adapter, type, operation, population class)")
	e.Assume("cross-representation copying is required of the default strategy and copy-function adapters built on it; mismatch refusal is not required of the byte-level codec adapter")
	n := e.N(3000, 80000)
	cl := cloners()
	e.Cases("copy", n, func(i int, r *rand.Rand) {
		cfg := cl[i%len(cl)]
		src, full, tname := genTyped(r)
		before := detBytes(src)
		sig := func(op string) string { return fmt.Sprintf("%s|%s|%s|%d", cfg.name, tname, op, len(before)/16) }
		viol := func(op, msg string) {
			e.Violate(fmt.Sprintf("%s/%s/%s", op, cfg.name, tname), msg, map[string]any{"adapter": cfg.name, "type": tname, "source": fmt.Sprintf("%.300v", src)})
		}
		unchanged := func(op string) {
			if string(detBytes(src)) != string(before) {
				viol(op+"/source-changed", "the source message was modified by "+op)
			}
		}
		// Clone
		var cp interface{}
		var err error
		if pan := guard(func() { cp, err = cfg.c.Clone(src) }); pan != "" {
			viol("clone/panic", pan)
		} else if err != nil {
			viol("clone/error", "Clone failed: "+err.Error())
		} else {
			cm, ok := cp.(proto.Message)
			if !ok || reflect.TypeOf(cp) != reflect.TypeOf(src) {
				viol("clone/type", fmt.Sprintf("Clone returned %T for %T", cp, src))
			} else {
				if !proto.Equal(cm, src) || string(detBytes(cm)) != string(before) {
					viol("clone/not-equal", "clone differs from source")
				}
				if sh := sharedMemory(cm, src); sh != "" {
					viol("clone/shared", "clone shares memory with source: "+sh)
				}
			}
			unchanged("clone")
		}
		e.Eval(sig("clone"), len(before) > 0)
		// Copy into empty and into populated
		for _, dstKind := range []string{"empty", "populated"} {
			dst := newOf(src)
			if dstKind == "populated" {
				dst = full
			}
			if pan := guard(func() { err = cfg.c.Copy(dst, src) }); pan != "" {
				viol("copy-"+dstKind+"/panic", pan)
				continue
			}
			if err != nil {
				viol("copy-"+dstKind+"/error", "Copy failed: "+err.Error())
				continue
			}
			if !proto.Equal(dst, src) || string(detBytes(dst)) != string(before) {
				viol("copy-"+dstKind+"/not-equal", fmt.Sprintf("destination after Copy differs from source (residue or loss): got %.200v", dst))
			}
			if sh := sharedMemory(dst, src); sh != "" {
				viol("copy-"+dstKind+"/shared", "destination shares memory with source: "+sh)
			}
			unchanged("copy-" + dstKind)
			e.Eval(sig("copy-"+dstKind), true)
		}
		// dynamic representations
		hasUnknown := len(src.ProtoReflect().GetUnknown()) > 0
		if !hasUnknown {
			dm, derr := toDynamic(src)
			if derr == nil {
				// dynamic -> dynamic clone
				var dcp interface{}
				if pan := guard(func() { dcp, err = cfg.c.Clone(dm) }); pan != "" {
					viol("clone-dynamic/panic", pan)
				} else if err != nil {
					viol("clone-dynamic/error", err.Error())
				} else {
					d2, ok := dcp.(*dynamic.Message)
					equal := false
					if p2 := guard(func() { equal = ok && dynamic.Equal(d2, dm) }); p2 != "" {
						viol("clone-dynamic/unusable", "clone of a dynamic message cannot even be compared (no descriptor?): "+trunc(p2, 200))
					} else if !equal {
						viol("clone-dynamic/not-equal", fmt.Sprintf("clone of a dynamic message is %T / differs", dcp))
					} else if sh := sharedMemory(d2, dm); sh != "" {
						viol("clone-dynamic/shared", "dynamic clone shares memory with source: "+sh)
					}
				}
				e.Eval(sig("clone-dynamic"), true)
				if cfg.crossRep {
					// dynamic -> generated (populated destination)
					dst := proto.Clone(full)
					if pan := guard(func() { err = cfg.c.Copy(dst, dm) }); pan != "" {
						viol("copy-dyn-to-gen/panic", pan)
					} else if err != nil {
						viol("copy-dyn-to-gen/error", err.Error())
					} else if !proto.Equal(dst, src) {
						viol("copy-dyn-to-gen/not-equal", fmt.Sprintf("generated destination differs from the dynamic source: %.200v", dst))
					}
					// generated -> dynamic (populated destination)
					ddst, _ := toDynamic(full)
					if pan := guard(func() { err = cfg.c.Copy(ddst, src) }); pan != "" {
						viol("copy-gen-to-dyn/panic", pan)
					} else if err != nil {
						viol("copy-gen-to-dyn/error", err.Error())
					} else if !dynEqualsGen(ddst, src) {
						viol("copy-gen-to-dyn/not-equal", "dynamic destination differs from the generated source")
					}
					unchanged("cross-representation copy")
					e.Eval(sig("cross"), true)
				} else {
					// adapters that do not promise conversions between representations may refuse a dynamic
					// destination, but they neither crash on one nor leave a wrong copy behind
					for _, from := range []string{"gen", "dyn"} {
						ddst, _ := toDynamic(full)
						var in interface{} = src
						if from == "dyn" {
							in = dm
						}
						if pan := guard(func() { err = cfg.c.Copy(ddst, in) }); pan != "" {
							viol("copy-"+from+"-to-dyn/panic", pan)
						} else if err == nil {
							okEq := false
							if p2 := guard(func() { okEq = dynEqualsGen(ddst, src) }); p2 != "" {
								viol("copy-"+from+"-to-dyn/unusable", "the dynamic destination cannot be read any more: "+trunc(p2, 200))
							} else if !okEq {
								viol("copy-"+from+"-to-dyn/not-equal", "dynamic destination differs from the source although Copy returned nil")
							}
						}
						e.Eval(sig("copy-"+from+"-to-dyn"), true)
					}
				}
			}
		}
		// refusals
		if cfg.refuses {
			var other proto.Message = &httpgrpc.TrailerValues{Values: []string{"keep"}}
			if tname == "Message" {
				other = &httpgrpc.HttpTrailer{Message: "keep"}
			}
			if reflect.TypeOf(other) != reflect.TypeOf(src) {
				if pan := guard(func() { err = cfg.c.Copy(other, src) }); pan != "" {
					viol("mismatch/panic", pan)
				} else if err == nil {
					viol("mismatch/accepted", fmt.Sprintf("Copy of %T into %T was accepted", src, other))
				}
				e.Eval(sig("mismatch"), true)
			}
		}
		type notProto struct {
			X int
			B []byte
		}
		np := &notProto{X: 1, B: []byte("abc")}
		if pan := guard(func() { err = cfg.c.Copy(np, src) }); pan != "" {
			viol("non-proto-dest/panic", pan)
		} else if err == nil {
			viol("non-proto-dest/accepted", "Copy into a pointer to a non-proto struct was accepted")
		}
		// neither is a pointer to an interface variable a message
		var anyVar interface{}
		var msgVar proto.Message
		for di, dest := range []interface{}{&anyVar, &msgVar} {
			if pan := guard(func() { err = cfg.c.Copy(dest, src) }); pan != "" {
				viol("non-proto-dest/panic", pan)
			} else if err == nil {
				viol(fmt.Sprintf("non-proto-dest/accepted/interface-pointer-%d", di), fmt.Sprintf("Copy into %T (a pointer to an interface variable) was accepted", dest))
			}
		}
		if cfg.name != "CloneFunc(proto.Clone)" || true {
			var out interface{}
			if pan := guard(func() { out, err = cfg.c.Clone(np) }); pan != "" {
				viol("non-proto-clone/panic", pan)
			} else if err == nil {
				viol("non-proto-clone/accepted", fmt.Sprintf("Clone of a pointer to a non-proto struct returned %T without error", out))
			}
		}
		e.Eval(sig("non-proto"), true)
		if i < 4 {
			e.Sample(map[string]any{"adapter": cfg.name, "type": tname, "source": fmt.Sprintf("%.200v", src)})
		}
	})
}
