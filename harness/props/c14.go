package props

import (
	"bytes"
	"context"
	"fmt"
	"github.com/fullstorydev/grpchan"
	"google.golang.org/protobuf/types/known/anypb"
	"io"
	"math/rand"
	"net/http"
	"net/http/httptest"
	"net/url"
	"os"
	"regexp"
	"strconv"
	"strings"
	"time"

	tpb "github.com/fullstorydev/grpchan/grpchantesting"
	"github.com/fullstorydev/grpchan/httpgrpc"
	"google.golang.org/grpc"
	"google.golang.org/grpc/codes"
	"google.golang.org/grpc/metadata"
	"google.golang.org/grpc/peer"
	"google.golang.org/grpc/status"
	"google.golang.org/protobuf/proto"

	"verifharness/core"
)

func init() { core.Register("C14", checkC14) }

type rtFunc func(*http.Request) (*http.Response, error)

func (f rtFunc) RoundTrip(r *http.Request) (*http.Response, error) { return f(r) }

func repoDir() string {
	if d := os.Getenv("VERIF_REPO"); d != "" {
		return d
	}
	return "/repo"
}

// docTable parses the table in DefaultErrorRenderer's doc comment.
func docTable() (map[codes.Code]int, error) {
	b, err := os.ReadFile(repoDir() + "/httpgrpc/server.go")
	if err != nil {
		return nil, err
	}
	src := string(b)
	i := strings.Index(src, "func DefaultErrorRenderer(")
	if i < 0 {
		return nil, fmt.Errorf("DefaultErrorRenderer not found")
	}
	j := strings.LastIndex(src[:i], "\n\n")
	doc := src[j:i]
	re := regexp.MustCompile(`(?m)^//\s+([A-Za-z]+):\s+\*?\s*(\d{3}) `)
	byName := map[string]codes.Code{}
	for c := codes.Code(0); c <= 16; c++ {
		byName[c.String()] = c
	}
	out := map[codes.Code]int{}
	for _, m := range re.FindAllStringSubmatch(doc, -1) {
		c, ok := byName[m[1]]
		if !ok {
			continue
		}
		n, _ := strconv.Atoi(m[2])
		out[c] = n
	}
	if len(out) < 16 {
		return nil, fmt.Errorf("doc table has only %d rows", len(out))
	}
	return out, nil
}

func unaryHTTPRequest(ctx context.Context, base string, run *Run, hdr http.Header) *http.Request {
	body, _ := proto.Marshal(run.S.UnaryReq)
	req := httptest.NewRequest("POST", strings.TrimSuffix(base, "/")+Unary.Method(), bytes.NewReader(body))
	req = req.WithContext(ctx)
	req.Header.Set("Content-Type", httpgrpc.UnaryRpcContentType_V1)
	req.Header.Set("X-Verif-Run", run.ID)
	for k, v := range hdr {
		req.Header[k] = v
	}
	return req
}

func checkC14(e *core.Env) {
	curEnv = e
	e.SetRule("exhaustive matrix: gRPC codes {1..16,17,99,2^31-1,2^32-1} x request context {live, cancelled} x RPC deadline {none, already expired} x renderer {default, writes nothing, writes 418} through httpgrpc.Server.ServeHTTP, the recorded reply fed back to httpgrpc.Channel under call options {none, Header, Trailer, Header+Trailer+Peer}; plus every HTTP status 100..599 without X-GRPC-Status (unary and stream) and with a contradicting header; distinct = distinct matrix cells")
	e.Assume("the documented table is parsed from DefaultErrorRenderer's doc comment in /repo/httpgrpc/server.go at run time")
	table, err := docTable()
	if err != nil {
		e.Internal("cannot parse the documented table: %v", err)
		return
	}
	e.SetExhaustive(true)
	allCodes := []uint32{1, 2, 3, 4, 5, 6, 7, 8, 9, 10, 11, 12, 13, 14, 15, 16, 17, 99, 1<<31 - 1, 1<<32 - 1}
	renderers := []struct {
		name string
		opt  []httpgrpc.ServerOption
	}{
		{"default", nil},
		{"nothing", []httpgrpc.ServerOption{httpgrpc.ErrorRenderer(func(context.Context, *status.Status, http.ResponseWriter) {})}},
		{"teapot", []httpgrpc.ServerOption{httpgrpc.ErrorRenderer(func(_ context.Context, _ *status.Status, w http.ResponseWriter) { w.WriteHeader(418) })}},
	}
	caseNo := 0
	for _, rend := range renderers {
		svc := &Service{}
		srv := httpgrpc.NewServer(rend.opt...)
		srv.RegisterService(&ScriptedDesc, svc)
		for _, code := range allCodes {
			for _, reqCancelled := range []bool{false, true} {
				for _, rpcExpired := range []bool{false, true} {
					caseNo++
					if !e.Selected("matrix", caseNo) {
						continue
					}
					e.Begin("matrix", caseNo, fmt.Sprintf("%s code=%d reqCancelled=%v rpcExpired=%v", rend.name, code, reqCancelled, rpcExpired))
					sc := &Script{Kind: Unary, UnaryReq: &tpb.Message{Payload: []byte("c14")}, Ret: Ret{How: "status", Code: code, Msg: []string{"m", "r\u00e9sum\u00e9 introuvable", "m", "\u65e5\u672c\u8a9e: not there", "a:b"}[caseNo%5]}}
					if rpcExpired {
						sc.Handler = []Op{{Op: "waitctx"}}
					}
					run := svc.NewRun(sc, "http-direct")
					ctx, cancel := context.WithCancel(context.Background())
					hdr := http.Header{}
					if rpcExpired && !reqCancelled {
						hdr.Set("GRPC-Timeout", "1n")
					}
					if reqCancelled {
						cancel()
						if caseNo%2 == 0 {
							// the request context may also have ended by a deadline of its own (http.TimeoutHandler and the like)
							ctx, cancel = context.WithDeadline(context.Background(), time.Unix(1, 0))
						}
					}
					rec := httptest.NewRecorder()
					srv.ServeHTTP(rec, unaryHTTPRequest(ctx, "/", run, hdr))
					cancel()
					svc.Forget(run)
					resp := rec.Result()
					cell := fmt.Sprintf("%s|%d|%v|%v", rend.name, code, reqCancelled, rpcExpired)
					e.Eval(cell, true)
					if _, ok := run.HandlerReturn(); !ok {
						e.Violate("matrix/handler-not-run", "handler did not run for a valid request: "+cell+" http="+resp.Status, cell)
						continue
					}
					c := codes.Code(code)
					if rend.name == "default" {
						want := http.StatusInternalServerError
						if w, ok := table[c]; ok {
							want = w
						}
						if (c == codes.Canceled || c == codes.DeadlineExceeded) && reqCancelled {
							want = 499
						}
						if resp.StatusCode != want {
							e.Violate(fmt.Sprintf("matrix/http-status/code%d/cancelled=%v/expired=%v", code, reqCancelled, rpcExpired), fmt.Sprintf("code %v request-cancelled=%v rpc-deadline-expired=%v: HTTP status %d, documented %d", c, reqCancelled, rpcExpired, resp.StatusCode, want), cell)
						}
						if resp.StatusCode < 400 {
							e.Violate("matrix/non-error-http-status", fmt.Sprintf("code %v rendered as HTTP %d", c, resp.StatusCode), cell)
						}
					}
					// feed the recorded reply to the client
					body, _ := io.ReadAll(resp.Body)
					ch := &httpgrpc.Channel{BaseURL: mustURL("http://c14.test/"), Transport: rtFunc(func(r *http.Request) (*http.Response, error) {
						return &http.Response{StatusCode: resp.StatusCode, Status: resp.Status, Header: resp.Header.Clone(), Body: io.NopCloser(bytes.NewReader(body)), Request: r, ProtoMajor: 1, ProtoMinor: 1}, nil
					})}
					// the caller's code must not depend on which call options capture the reply's metadata
					for oi, opts := range c14CallOpts() {
						cerr := ch.Invoke(context.Background(), Unary.Method(), sc.UnaryReq, new(tpb.Message), opts...)
						if got := status.Code(cerr); cerr == nil || got != c {
							e.Violate(fmt.Sprintf("matrix/client-code/%s/code%d/%s", rend.name, code, c14OptNames[oi]), fmt.Sprintf("handler returned code %d; renderer %s produced HTTP %d; client (call options: %s) saw %v", code, rend.name, resp.StatusCode, c14OptNames[oi], cerr), cell)
						}
					}
				}
			}
		}
	}
	// handler sets created one after another on muxes of the application's own: one with an error renderer of
	// its own first, then one without any option - the second one renders errors by the documented table
	{
		customSvc, plainSvc := &Service{}, &Service{}
		regA, regB := grpchan.HandlerMap{}, grpchan.HandlerMap{}
		regA.RegisterService(&ScriptedDesc, customSvc)
		regB.RegisterService(&ScriptedDesc, plainSvc)
		muxA, muxB := http.NewServeMux(), http.NewServeMux()
		httpgrpc.HandleServices(muxA.HandleFunc, "/", regA, nil, nil, httpgrpc.ErrorRenderer(func(_ context.Context, _ *status.Status, w http.ResponseWriter) { w.WriteHeader(418) }))
		httpgrpc.HandleServices(muxB.HandleFunc, "/", regB, nil, nil)
		for _, code := range allCodes {
			if code == 0 {
				continue
			}
			caseNo++
			if !e.Selected("matrix", caseNo) {
				continue
			}
			e.Begin("matrix", caseNo, fmt.Sprintf("handler-sets-in-order code=%d", code))
			for which, mux := range []*http.ServeMux{muxA, muxB} {
				svc := []*Service{customSvc, plainSvc}[which]
				sc := &Script{Kind: Unary, UnaryReq: &tpb.Message{Payload: []byte("c14")}, Ret: Ret{How: "status", Code: code, Msg: "m"}}
				run := svc.NewRun(sc, "http-direct")
				rec := httptest.NewRecorder()
				mux.ServeHTTP(rec, unaryHTTPRequest(context.Background(), "/", run, nil))
				svc.Forget(run)
				e.Eval(fmt.Sprintf("handler-sets-in-order|%d|%d", which, code), true)
				want := 418
				if which == 1 {
					want = http.StatusInternalServerError
					if w, ok := table[codes.Code(code)]; ok {
						want = w
					}
				}
				if rec.Code != want {
					e.Violate(fmt.Sprintf("special/handler-sets-in-order/http-status/set%d", which), fmt.Sprintf("two handler sets, the first created with an error renderer of its own (always 418), the second without options: set #%d answered code %d with HTTP %d, want %d", which+1, code, rec.Code, want), nil)
				}
			}
		}
	}
	// an error whose status claims OK (custom error types can do that) is still a failed call: an error status on
	// the wire and a non-OK code for the caller; and header metadata set by the handler under the name of the
	// protocol's own status header does not get in the way of the real status
	for ri, rend := range renderers {
		svc := &Service{}
		srv := httpgrpc.NewServer(rend.opt...)
		srv.RegisterService(&ScriptedDesc, svc)
		for vi, variant := range []string{"ok-coded-error", "shadowing-header", "unencodable-detail"} {
			for _, code := range []uint32{5, 13, 16} {
				caseNo++
				if !e.Selected("special", caseNo) {
					continue
				}
				e.Begin("special", caseNo, fmt.Sprintf("%s %s %d", rend.name, variant, code))
				sc := &Script{Kind: Unary, UnaryReq: &tpb.Message{Payload: []byte("c14s")}, Ret: Ret{How: "status", Code: code, Msg: "real"}}
				wantCode := codes.Code(code)
				if variant == "ok-coded-error" {
					sc.Ret = Ret{How: "okcoded", Msg: "failed but claims OK"}
					wantCode = codes.Internal
				} else if variant == "unencodable-detail" {
					// a status detail that cannot be put on the wire does not take the code with it
					sc.Ret.Details = []*anypb.Any{{TypeUrl: "type.test/\xff\xfe", Value: []byte("x")}}
					sc.Ret.NDet = 1
				} else {
					sc.Handler = []Op{{Op: "sethdr", MD: metadata.MD{"x-grpc-status": {"5:relayed from upstream"}, "x-grpc-details": {"AAAA"}}}}
				}
				run := svc.NewRun(sc, "http-direct")
				rec := httptest.NewRecorder()
				srv.ServeHTTP(rec, unaryHTTPRequest(context.Background(), "/", run, nil))
				svc.Forget(run)
				resp := rec.Result()
				body, _ := io.ReadAll(resp.Body)
				cell := fmt.Sprintf("special|%s|%s|%d", rend.name, variant, code)
				e.Eval(cell, true)
				_, _ = ri, vi
				if rend.name == "default" && resp.StatusCode < 400 {
					e.Violate("special/"+variant+"/non-error-http-status", fmt.Sprintf("%s: a failed call was rendered as HTTP %d", cell, resp.StatusCode), cell)
				}
				if want, ok := table[wantCode]; ok && rend.name == "default" && variant != "ok-coded-error" && resp.StatusCode != want {
					e.Violate("special/"+variant+"/http-status", fmt.Sprintf("%s: HTTP status %d, documented %d", cell, resp.StatusCode, want), cell)
				}
				ch := &httpgrpc.Channel{BaseURL: mustURL("http://c14.test/"), Transport: rtFunc(func(r *http.Request) (*http.Response, error) {
					return &http.Response{StatusCode: resp.StatusCode, Status: resp.Status, Header: resp.Header.Clone(), Body: io.NopCloser(bytes.NewReader(body)), Request: r, ProtoMajor: 1, ProtoMinor: 1}, nil
				})}
				cerr := ch.Invoke(context.Background(), Unary.Method(), sc.UnaryReq, new(tpb.Message))
				if cerr == nil || status.Code(cerr) != wantCode {
					e.Violate("special/"+variant+"/client-code", fmt.Sprintf("%s: the caller saw %v, want code %v", cell, cerr, wantCode), cell)
				}
			}
		}
	}
	e.Sample(map[string]any{"matrix_cells": caseNo, "example": "renderer=default code=4 request-cancelled=false rpc-deadline-expired=true -> HTTP 504, client code 4"})

	// synthetic replies without the gRPC status header
	for st := 100; st <= 599; st++ {
		for _, stream := range []bool{false, true} {
			if !e.Selected("synthetic", st) {
				continue
			}
			e.Begin("synthetic", st, fmt.Sprint(stream))
			ch := &httpgrpc.Channel{BaseURL: mustURL("http://c14.test/"), Transport: rtFunc(func(r *http.Request) (*http.Response, error) {
				if r.Body != nil {
					go io.Copy(io.Discard, r.Body)
				}
				return &http.Response{StatusCode: st, Status: fmt.Sprintf("%d %s", st, http.StatusText(st)), Header: http.Header{}, Body: io.NopCloser(strings.NewReader("")), Request: r, ProtoMajor: 1, ProtoMinor: 1}, nil
			})}
			var cerr error
			if !stream {
				cerr = ch.Invoke(context.Background(), Unary.Method(), &tpb.Message{}, new(tpb.Message), c14CallOpts()[st%len(c14OptNames)]...)
			} else {
				ctx, cancel := context.WithCancel(context.Background())
				cs, err := ch.NewStream(ctx, ServerStream.StreamDesc(), ServerStream.Method())
				if err == nil {
					cs.SendMsg(&tpb.Message{})
					cs.CloseSend()
					err = cs.RecvMsg(new(tpb.Message))
				}
				cancel()
				cerr = err
			}
			e.Eval(fmt.Sprintf("synthetic|%d|%v", st, stream), true)
			is2xx := st >= 200 && st < 300
			switch {
			case !stream && is2xx && cerr != nil:
				e.Violate("synthetic/2xx-not-ok", fmt.Sprintf("HTTP %d without X-GRPC-Status: unary client saw %v, want OK", st, cerr), st)
			case !is2xx && (cerr == nil || cerr == io.EOF || status.Code(cerr) == codes.OK):
				e.Violate("synthetic/non-2xx-ok", fmt.Sprintf("HTTP %d without X-GRPC-Status (stream=%v): client saw %v, want a non-OK code", st, stream, cerr), st)
			}
		}
	}
	// header precedence: a header code that contradicts the HTTP status
	e.Cases("precedence", e.N(2000, 100000), func(i int, r *rand.Rand) {
		st := 100 + r.Intn(500)
		code := uint32(r.Intn(20))
		if r.Intn(10) == 0 {
			code = pick(r, uint32(99), 1<<31-1, 1000)
		}
		msg := pick(r, "", "m", "a:b", ":", "x y")
		bodyKind := r.Intn(3)
		if code == 0 {
			bodyKind = 0 // a successful reply needs its body
		}
		ch := &httpgrpc.Channel{BaseURL: mustURL("http://c14.test/"), Transport: rtFunc(func(rq *http.Request) (*http.Response, error) {
			h := http.Header{}
			h.Set("X-GRPC-Status", fmt.Sprintf("%d:%s", code, msg))
			// an error reply may carry any body (a renderer's text, a proxy's page), complete or broken off
			var body io.Reader = strings.NewReader("")
			switch bodyKind {
			case 1:
				body = strings.NewReader("<html>an error page</html>")
			case 2:
				body = io.MultiReader(strings.NewReader("partial"), errReader{io.ErrUnexpectedEOF})
			}
			return &http.Response{StatusCode: st, Header: h, Body: io.NopCloser(body), Request: rq, ProtoMajor: 1, ProtoMinor: 1}, nil
		})}
		oi := r.Intn(len(c14OptNames))
		cerr := ch.Invoke(context.Background(), Unary.Method(), &tpb.Message{}, new(tpb.Message), c14CallOpts()[oi]...)
		e.Eval(fmt.Sprintf("prec|%d|%d|%s|body%d", st/100, code, c14OptNames[oi], bodyKind), true)
		if code == 0 {
			// a header that says OK on top of a non-2xx status contradicts itself; the statement fixes the outcome
			// only where the two agree
			if cerr != nil && st >= 200 && st < 300 {
				e.Violate("precedence/ok-header", fmt.Sprintf("HTTP %d with X-GRPC-Status 0: client saw %v", st, cerr), nil)
			}
			return
		}
		if cerr == nil || status.Code(cerr) != codes.Code(code) || status.Convert(cerr).Message() != msg {
			e.Violate("precedence/header-code", fmt.Sprintf("HTTP %d with X-GRPC-Status %d:%q (body kind %d: 0 empty, 1 text, 2 broken off): client saw %v", st, code, msg, bodyKind, cerr), nil)
		}
	})
}

var c14OptNames = []string{"none", "header", "trailer", "header+trailer+peer"}

func c14CallOpts() [][]grpc.CallOption {
	return [][]grpc.CallOption{
		nil,
		{grpc.Header(new(metadata.MD))},
		{grpc.Trailer(new(metadata.MD))},
		{grpc.Header(new(metadata.MD)), grpc.Trailer(new(metadata.MD)), grpc.Peer(new(peer.Peer))},
	}
}

func mustURL(s string) *url.URL {
	u, err := url.Parse(s)
	if err != nil {
		panic(err)
	}
	return u
}

type errReader struct{ err error }

func (e errReader) Read([]byte) (int, error) { return 0, e.err }
