package props

import (
	"fmt"
	"reflect"
	"strings"
	"unsafe"
)

// memRegion is a piece of mutable memory reachable from a message.
type memRegion struct {
	start, end uintptr
	path       string
}

// skipPkgs: types from these packages are shared immutable infrastructure
// (descriptors, type info), not message data.
var skipPkgs = []string{
	"github.com/jhump/protoreflect/desc",
	"google.golang.org/protobuf/internal",
	"google.golang.org/protobuf/reflect/protoreflect",
	"google.golang.org/protobuf/reflect/protoregistry",
	"google.golang.org/protobuf/runtime/protoimpl",
	"google.golang.org/protobuf/types/descriptorpb",
	"sync",
}

func skipType(t reflect.Type) bool {
	for t.Kind() == reflect.Ptr {
		t = t.Elem()
	}
	p := t.PkgPath()
	for _, s := range skipPkgs {
		if p == s || strings.HasPrefix(p, s+"/") {
			return true
		}
	}
	switch t.String() {
	case "dynamic.ExtensionRegistry", "dynamic.MessageFactory", "dynamic.KnownTypeRegistry":
		return true
	}
	return false
}

// memRegions walks v (exported and unexported fields) and returns the mutable
// memory it can reach: pointer targets, slice backing arrays, map headers.
func memRegions(v interface{}) []memRegion {
	var out []memRegion
	seen := map[uintptr]bool{}
	var walk func(rv reflect.Value, path string, depth int)
	walk = func(rv reflect.Value, path string, depth int) {
		if depth > 40 || !rv.IsValid() {
			return
		}
		if skipType(rv.Type()) {
			return
		}
		switch rv.Kind() {
		case reflect.Ptr:
			if rv.IsNil() {
				return
			}
			p := rv.Pointer()
			if seen[p] {
				return
			}
			seen[p] = true
			sz := rv.Type().Elem().Size()
			if sz > 0 {
				out = append(out, memRegion{p, p + sz, path})
			}
			walk(rv.Elem(), path+".*", depth+1)
		case reflect.Interface:
			if rv.IsNil() {
				return
			}
			walk(rv.Elem(), path+".(i)", depth+1)
		case reflect.Struct:
			t := rv.Type()
			for i := 0; i < rv.NumField(); i++ {
				f := t.Field(i)
				if f.Name == "state" || f.Name == "sizeCache" {
					continue
				}
				fv := rv.Field(i)
				if !fv.CanInterface() {
					if !fv.CanAddr() {
						// copy to an addressable value so that unexported fields can be read
						tmp := reflect.New(rv.Type()).Elem()
						tmp.Set(rv)
						fv = tmp.Field(i)
					}
					fv = reflect.NewAt(fv.Type(), unsafe.Pointer(fv.UnsafeAddr())).Elem()
				}
				walk(fv, path+"."+f.Name, depth+1)
			}
		case reflect.Slice:
			if rv.IsNil() || rv.Cap() == 0 {
				return
			}
			p := rv.Pointer()
			sz := uintptr(rv.Cap()) * rv.Type().Elem().Size()
			if sz > 0 {
				out = append(out, memRegion{p, p + sz, path + "[]"})
			}
			if k := rv.Type().Elem().Kind(); k == reflect.Ptr || k == reflect.Interface || k == reflect.Struct || k == reflect.Slice || k == reflect.Map {
				for i := 0; i < rv.Len(); i++ {
					walk(rv.Index(i), fmt.Sprintf("%s[%d]", path, i), depth+1)
				}
			}
		case reflect.Map:
			if rv.IsNil() {
				return
			}
			p := rv.Pointer()
			out = append(out, memRegion{p, p + 1, path + "{map}"})
			it := rv.MapRange()
			for it.Next() {
				k := it.Key()
				val := it.Value()
				if !val.CanInterface() {
					continue
				}
				walk(val, fmt.Sprintf("%s[%v]", path, shortKey(k)), depth+1)
			}
		}
	}
	rv := reflect.ValueOf(v)
	walk(rv, "$", 0)
	return out
}

func shortKey(k reflect.Value) string {
	s := fmt.Sprint(k)
	if len(s) > 12 {
		s = s[:12]
	}
	return s
}

// sharedMemory returns a description of memory reachable from both a and b
// ("" if the graphs are disjoint).
func sharedMemory(a, b interface{}) string {
	ra, rb := memRegions(a), memRegions(b)
	for _, x := range ra {
		for _, y := range rb {
			if x.start < y.end && y.start < x.end {
				return fmt.Sprintf("%s and %s overlap at %#x", x.path, y.path, max(x.start, y.start))
			}
		}
	}
	return ""
}
