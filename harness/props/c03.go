package props

import (
	"fmt"
	"google.golang.org/grpc/codes"
	"google.golang.org/grpc/status"
	"math/rand"
	"strings"
	"time"
	"unicode/utf8"

	"google.golang.org/grpc/metadata"

	"verifharness/core"
)

func init() { core.Register("C03", checkC03) }

// genMetaScript: a delivery script decorated with header/trailer operations.
func genMetaScript(r *rand.Rand, kind Kind, half bool) *Script {
	s := genDeliveryScript(r, kind, half, false)
	s.MutateAfterSend = false
	s.ReqMD = genMD(r, 6, false)
	s.NHdrOpt, s.NTrlOpt = r.Intn(4), r.Intn(4)
	s.ReuseMD = r.Intn(3) == 0
	if r.Intn(3) == 0 {
		s.Ret = genRet(r)
		if s.Ret.How == "status" {
			s.Ret.Msg = "failure" // message classes are C02's business
		}
	}
	fail := s.Ret.How != "" && s.Ret.How != "ok"
	// split the handler into its receive part and its sends
	var recvs, sends []Op
	for _, o := range s.Handler {
		if o.Op == "send" {
			sends = append(sends, o)
		} else {
			recvs = append(recvs, o)
		}
	}
	if len(sends) > 4 {
		sends = sends[:4]
	}
	if fail && len(sends) > 0 && r.Intn(2) == 0 {
		sends = sends[:r.Intn(len(sends))]
	}
	if kind == Unary {
		recvs, sends = nil, nil
	}
	// header operations at random positions among the sends
	var h []Op
	nmeta := r.Intn(5)
	si := 0
	slots := nmeta + len(sends)
	for k := 0; k < slots; k++ {
		if si < len(sends) && (nmeta == 0 || r.Intn(slots-k) < len(sends)-si) {
			h = append(h, sends[si])
			si++
			continue
		}
		nmeta--
		h = append(h, Op{Op: pick(r, "sethdr", "sethdr", "sendhdr", "settrl", "settrl"), MD: genMD(r, 3, false)})
	}
	for ; si < len(sends); si++ {
		h = append(h, sends[si])
	}
	if r.Intn(4) == 0 {
		// repeated keys across calls must merge in call order
		h = append([]Op{{Op: "sethdr", MD: metadata.MD{"rep-key": {"h1", "h2"}}}, {Op: "settrl", MD: metadata.MD{"rep-key": {"t1"}}}}, h...)
		// (binary values that are not valid UTF-8 run into F-C03-1 over HTTP: only a third of these scripts use one)
		h = append(h, Op{Op: "settrl", MD: metadata.MD{"rep-key": {"t2", "t3"}, "late-bin": {pick(r, "\x00\xff", "\x00\x7f", "\x01\x02")}}})
	}
	if r.Intn(5) == 0 {
		// per-RPC credentials whose metadata shares a key with the caller's: the caller's values stay
		s.CredMD = map[string]string{"from-creds-only": "c0"}
		for k := range s.ReqMD {
			if !strings.HasSuffix(k, "-bin") {
				s.CredMD[k] = "from-creds"
				break
			}
		}
	}
	// handlers that go through grpc.SetHeader / SendHeader / SetTrailer with their context; callers with a deadline
	s.ViaCtx = r.Intn(4) == 0
	if r.Intn(4) == 0 {
		s.CallTimeout = pick(r, time.Hour, 10*time.Minute, 36*time.Hour)
	}
	// in a full-duplex handler the receive part stays first (keeps the script deadlock-free)
	s.Handler = append(recvs, h...)
	if kind != Unary {
		var rc []Op
		switch r.Intn(6) {
		case 0:
			rc = []Op{{Op: "recvall"}, {Op: "trailer"}}
		case 1:
			rc = []Op{{Op: "header"}, {Op: "recvall"}, {Op: "trailer"}}
		case 2:
			rc = []Op{{Op: "recvall"}, {Op: "header"}, {Op: "trailer"}}
		case 3:
			rc = []Op{{Op: "recv"}, {Op: "header"}, {Op: "recvall"}, {Op: "trailer"}}
		case 4:
			rc = []Op{{Op: "trailer"}, {Op: "header"}, {Op: "header"}, {Op: "recvall"}, {Op: "trailer"}, {Op: "header"}}
		default:
			rc = []Op{{Op: "header"}, {Op: "recvall"}, {Op: "recv"}, {Op: "trailer"}, {Op: "trailer"}}
		}
		if !kind.ServerStreams() {
			// single response: "recvall" would be a second receive after completion; keep one recv
			for i := range rc {
				if rc[i].Op == "recvall" {
					rc[i].Op = "recv"
				}
			}
		}
		s.Receiver = rc
	}
	return s
}

func hasNonUTF8Bin(md metadata.MD) bool {
	for k, vs := range md {
		if strings.HasSuffix(k, "-bin") {
			for _, v := range vs {
				if !utf8.ValidString(v) {
					return true
				}
			}
		}
	}
	return false
}

// metaOracle judges one run; returns (signature, problem) pairs.
func metaOracle(run *Run) [][2]string {
	var probs [][2]string
	add := func(sig, msg string) { probs = append(probs, [2]string{sig, msg}) }
	evs := run.Events()
	for _, e := range evs {
		if e.Pan != "" {
			add("panic", e.Who+"."+e.Op+": "+e.Pan)
		}
	}
	_, returned := run.HandlerReturn()
	if !returned {
		return probs
	}
	// (a) request metadata (values of per-RPC credentials come after the caller's own under the same key)
	// under a key that the credentials use as well, the caller's values all arrive, in their order, next to
	// the credentials' value (before or after: transports differ)
	wantReq := run.S.ReqMD
	if len(run.S.CredMD) > 0 {
		wantReq = metadata.MD{}
		for k, v := range run.S.ReqMD {
			cv, shared := run.S.CredMD[k]
			if !shared {
				wantReq[k] = v
				continue
			}
			got := run.HandlerMD[k]
			rest := append([]string(nil), got...)
			for i, g := range rest {
				if g == cv {
					rest = append(rest[:i:i], rest[i+1:]...)
					break
				}
			}
			if len(rest) != len(got)-1 || strings.Join(rest, "\x00") != strings.Join(v, "\x00") {
				add("request-md", fmt.Sprintf("key %q shared with per-RPC credentials: handler got %q, caller attached %q and the credentials %q", k, got, v, cv))
			}
		}
		for k, cv := range run.S.CredMD {
			if _, shared := run.S.ReqMD[k]; !shared {
				wantReq[k] = []string{cv}
			}
		}
	}
	if ok, why := mdContains(run.HandlerMD, wantReq); !ok {
		add("request-md", "handler's incoming metadata lacks/changes caller pairs: "+why)
	}
	// (b,c) model of the handler's header/trailer calls
	wantH, wantT := metadata.MD{}, metadata.MD{}
	sent := false
	for _, e := range evs {
		if e.Who != "h" || e.Call {
			continue
		}
		switch e.Op {
		case "sethdr", "sendhdr":
			if sent && e.Err == nil && len(e.MD) > 0 {
				add("set-after-sent", fmt.Sprintf("%s succeeded although headers were already sent", e.Op))
			}
			if !sent && e.Err != nil {
				add("set-refused", fmt.Sprintf("%s failed before headers were sent: %v", e.Op, e.Err))
			}
			if e.Err == nil {
				wantH = mdMerge(wantH, e.MD)
			}
			if e.Op == "sendhdr" && e.Err == nil {
				sent = true
			}
		case "send":
			if e.Err == nil {
				sent = true
			}
		case "settrl":
			if e.Err == nil {
				wantT = mdMerge(wantT, e.MD)
			}
		}
	}
	out := run.ClientOutcome()
	if !out.Seen {
		return probs
	}
	outcome := "success"
	if !out.OK {
		outcome = "failure"
	}
	// (d) what the client saw
	ended := false // a receive returned non-nil / unary returned
	var lastHeader, lastTrailer *Event
	for i := range evs {
		e := &evs[i]
		if e.Call || (e.Who != "cs" && e.Who != "cr") {
			continue
		}
		switch e.Op {
		case "recv":
			if e.Err != nil {
				ended = true
			} else if !run.S.Kind.ServerStreams() {
				ended = true
			}
		case "invoke":
			ended = true
		case "header":
			if e.Err == nil {
				lastHeader = e
				if ok, why := mdContains(e.MD, wantH); !ok {
					add("header/"+outcome, "Header() lacks/changes pairs the handler set: "+why)
				}
			}
		case "trailer":
			if ended {
				lastTrailer = e
				if ok, why := mdContains(e.MD, wantT); !ok {
					add("trailer/"+outcome, "Trailer() after the final status lacks/changes pairs the handler set: "+why)
				}
			}
		}
	}
	_ = lastHeader
	_ = lastTrailer
	if run.S.ReuseMD {
		leaked := func(md metadata.MD) bool {
			if _, ok := md["added-after-the-call"]; ok {
				return true
			}
			for _, vs := range md {
				for _, v := range vs {
					if v == "overwritten-after-the-call" || v == "appended-after-the-call" {
						return true
					}
				}
			}
			return false
		}
		for i := range evs {
			e := &evs[i]
			if !e.Call && (e.Who == "cs" || e.Who == "cr") && (e.Op == "header" || e.Op == "trailer") && leaked(e.MD) {
				add("md-aliased/"+e.Op, "the handler re-used (overwrote) a metadata map after handing it to the library; the caller observed the later content: "+fmt.Sprint(e.MD))
				break
			}
		}
		for _, t := range append(append([]*metadata.MD{}, run.HdrTargets...), run.TrlTargets...) {
			if leaked(*t) {
				add("md-aliased/option", "the handler re-used a metadata map after handing it to the library; a call-option target shows the later content")
				break
			}
		}
	}
	if ended {
		for i, t := range run.HdrTargets {
			if ok, why := mdContains(*t, wantH); !ok {
				add("header-option/"+outcome, fmt.Sprintf("grpc.Header target #%d of %d lacks/changes pairs: %s", i, len(run.HdrTargets), why))
				break
			}
		}
		for i, t := range run.TrlTargets {
			if ok, why := mdContains(*t, wantT); !ok {
				add("trailer-option/"+outcome, fmt.Sprintf("grpc.Trailer target #%d of %d lacks/changes pairs: %s", i, len(run.TrlTargets), why))
				break
			}
		}
	}
	return probs
}

func checkC03(e *core.Env) {
	curEnv = e
	e.SetRule("seeded scripts: request metadata (0..6 keys, repeated keys, hostile ASCII values, -bin values with arbitrary bytes), handler orders of SetHeader/SendHeader/SendMsg/SetTrailer/return(ok|error), client orders of Header/RecvMsg/Trailer, 0..3 duplicated grpc.Header/grpc.Trailer options, all kinds, in-process and both HTTP carriers; oracle: containment with exact value lists against the merge of the handler's successful calls, 'already sent' model; calibrated on the standard transport; distinct = (carrier, kind, handler op order, client op order, outcome)")
	e.Assume("metadata domain: lower-case keys over [a-z0-9_.-] that HTTP/gRPC do not reserve, ASCII values without outer blanks")
	cs := stdCarriers()
	defer cs.Close()
	n := e.N(1200, 20000)
	e.Cases("meta", n, func(i int, r *rand.Rand) {
		kind := Kind(i % 4)
		for ci, c := range cs.list {
			rr := rand.New(rand.NewSource(r.Int63() + int64(ci)))
			sc := genMetaScript(rr, kind, c.HTTP)
			e.Note("%s %s", c.Name, sc.Shape())
			ref, ok, _ := execScript(cs.ref, sc, nil)
			if !ok || len(metaOracle(ref)) > 0 {
				e.Count("calibrated_out", 1)
				if ok {
					e.Count("calibrated_out."+kindClass(kind)+"."+metaOracle(ref)[0][0], 1)
					e.Note("calibrated out: %s %v ret=%+v", sc.Shape(), metaOracle(ref)[0], sc.Ret)
				} else {
					e.Count("calibrated_out.hang", 1)
				}
				continue
			}
			run, ok, dump := execScript(c, sc, nil)
			if !ok {
				hangVerdict(e, "C03", cs, c, sc, run, dump)
				continue
			}
			if p := reachProblem(cs, c, sc, run); p != "" {
				e.Violate(fmt.Sprintf("%s/%s/never-reached-handler", c.Name, kindClass(kind)), p, witness(run))
			}
			nmeta := len(sc.ReqMD)
			for _, o := range sc.Handler {
				if o.Op != "send" && o.Op != "recv" && o.Op != "recvall" {
					nmeta++
				}
			}
			e.Eval(c.Name+"|"+sc.Shape()+fmt.Sprintf("|%d%d", sc.NHdrOpt, sc.NTrlOpt), nmeta > 0)
			e.Count("events", int64(len(run.Events())))
			// a stream that has completed successfully keeps its response metadata: the caller's context has ended
			// by now (execScript ends it, as happens when a sibling call fails under a shared context); asking the
			// finished stream for its headers again still yields what the handler set
			if out := run.ClientOutcome(); kind != Unary && run.Stream != nil && out.Seen && out.OK && len(metaOracle(run)) == 0 {
				var hdr metadata.MD
				var herr error
				pan := guard(func() { hdr, herr = run.Stream.Header() })
				wantH := metadata.MD{}
				sent := false
				for _, ev := range run.Events() {
					if ev.Who != "h" || ev.Call || ev.Err != nil {
						continue
					}
					switch ev.Op {
					case "sethdr", "sendhdr":
						if !sent {
							wantH = mdMerge(wantH, ev.MD)
						}
						if ev.Op == "sendhdr" {
							sent = true
						}
					case "send":
						sent = true
					}
				}
				e.Count("header_asked_again_after_context_end", 1)
				if pan != "" {
					e.Violate(fmt.Sprintf("%s/stream/header-after-completion/panic", c.Name), trunc(pan, 300), witness(run))
				} else if herr != nil {
					e.Violate(fmt.Sprintf("%s/stream/header-after-completion/error", c.Name), fmt.Sprintf("the call had completed successfully; after the caller's context had ended, Header() on the finished stream returned %v", herr), witness(run))
				} else if ok, why := mdContains(hdr, wantH); !ok {
					e.Violate(fmt.Sprintf("%s/stream/header-after-completion/lost", c.Name), "the call had completed successfully; asked again after the caller's context had ended, Header() lacks pairs the handler set: "+why, witness(run))
				}
			}
			for _, p := range metaOracle(run) {
				sig := fmt.Sprintf("%s/%s/%s", c.Name, kindClass(kind), p[0])
				if c.HTTP && kind != Unary && strings.HasPrefix(p[0], "trailer") {
					// classify the F-C03-1 input class
					wantT := metadata.MD{}
					for _, o := range sc.Handler {
						if o.Op == "settrl" {
							wantT = mdMerge(wantT, o.MD)
						}
					}
					// F-C03-1 shows as a loud failure (Internal) of the whole call; anything else on such a script
					// (a call that succeeds with trailers missing, merged wrongly, ...) is not that finding
					if out := run.ClientOutcome(); hasNonUTF8Bin(wantT) && out.Seen && !out.OK && status.Code(out.Err) == codes.Internal {
						sig = fmt.Sprintf("%s/stream/non-utf8-bin-trailer/%s", c.Name, p[0])
					}
				}
				e.Violate(sig, p[1], witness(run))
			}
			if i < 2 && ci == 0 {
				e.Sample(map[string]any{"carrier": c.Name, "script": sc})
			}
		}
	})

	// the caller's context ends just as the in-process handler returns (server goroutine parked on entry to
	// its finishing code, then the cancel, then release): the client may see the cancellation or the end of the
	// stream, but an end of stream reported as success comes with the trailers the handler set
	var inp *Carrier
	for _, c := range cs.list {
		if c.Inproc {
			inp = c
		}
	}
	e.Cases("cancel-at-finish", e.N(40, 600), func(i int, r *rand.Rand) {
		kind := Kind(1 + i%3)
		sc := genMetaScript(r, kind, false)
		sc.Ret = Ret{}
		hasTrl := false
		for _, op := range sc.Handler {
			if op.Op == "settrl" && len(op.MD) > 0 {
				hasTrl = true
			}
		}
		if !hasTrl {
			sc.Handler = append(sc.Handler, Op{Op: "settrl", MD: metadata.MD{"final-key": {"final-value"}}})
		}
		has := false
		for _, op := range sc.Receiver {
			if op.Op == "trailer" {
				has = true
			}
		}
		if !has {
			sc.Receiver = append(sc.Receiver, Op{Op: "trailer"})
		}
		dry := runPlaced(inp, sc, "cancel", placement{"none", 0})
		if !dry.finished {
			e.Inconclusive("C03 cancel-at-finish: dry run did not finish")
			return
		}
		idx := -1
		for k, h := range dry.hits {
			if h == "stream.server.finish" {
				idx = k
				break
			}
		}
		if idx < 0 {
			e.Inconclusive("C03 cancel-at-finish: finish hook not seen")
			return
		}
		for rep := 0; rep < 8; rep++ {
			res := runPlaced(inp, sc, "cancel", placement{"hook", idx})
			if !res.finished || !res.reached {
				continue
			}
			out := res.run.ClientOutcome()
			e.Eval(fmt.Sprintf("cancel-at-finish|%s|ok=%v", kind, out.OK), true)
			e.Count("cancel_at_finish_placed", 1)
			if out.OK {
				e.Count("cancel_at_finish_success_seen", 1)
			}
			if !out.Seen || !out.OK {
				continue
			}
			for _, p := range metaOracle(res.run) {
				if strings.HasSuffix(p[0], "/success") {
					e.Violate("inproc/stream/cancel-at-finish/"+p[0], "context ended as the handler returned; the client reported a successful end of stream, yet: "+p[1], witness(res.run))
					return
				}
			}
		}
	})
}
