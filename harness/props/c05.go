package props

import (
	"context"
	"fmt"
	"github.com/fullstorydev/grpchan/httpgrpc"
	"github.com/fullstorydev/grpchan/inprocgrpc"
	"io"
	"math/rand"
	"net"
	"net/http"
	"os"
	"runtime"
	"strings"
	"sync/atomic"
	"time"

	tpb "github.com/fullstorydev/grpchan/grpchantesting"
	"google.golang.org/grpc"
	"google.golang.org/grpc/metadata"
	"google.golang.org/grpc/status"

	"verifharness/core"
)

func init() {
	core.Register("C05", checkC05)
	core.RegisterRace("C05", func(e *core.Env) { runC05(e, 150) })
}

// genLivenessScript: bounded random programs with a sender and a receiver
// goroutine on the client and hostile handler shapes.
func genLivenessScript(r *rand.Rand, kind Kind, http bool) *Script {
	tag := fmt.Sprintf("%016x", r.Uint64())
	s := &Script{Kind: kind}
	seq := 0
	msg := func(big bool) *tpb.Message {
		seq++
		m := &tpb.Message{Payload: []byte(fmt.Sprintf("%s/%d", tag, seq)), Count: int32(seq)}
		if big {
			m.Payload = append(m.Payload, make([]byte, 300<<10)...)
		}
		return m
	}
	// client sender
	ns := r.Intn(7)
	if !kind.ClientStreams() {
		ns = 1 + r.Intn(2)
	}
	bigSends := http && r.Intn(3) == 0
	for i := 0; i < ns; i++ {
		s.Sender = append(s.Sender, Op{Op: "send", Msg: msg(bigSends && i > 0)})
		if r.Intn(12) == 0 {
			s.Sender = append(s.Sender, Op{Op: "close"}) // send after own CloseSend follows
		}
	}
	closeChoice := r.Intn(6)
	if http && closeChoice == 0 && !(bigSends && ns >= 3) {
		// over HTTP/1.1 a client that waits for replies must have closed its send side (half-duplex) - unless it
		// has sent so much (> 256 KiB) that the server answers anyway and the sends end with io.EOF
		closeChoice = 3
	}
	switch closeChoice {
	case 0: // never closes
	case 1:
		s.Sender = append(s.Sender, Op{Op: "close"}, Op{Op: "close"}) // double CloseSend
	case 2:
		s.Sender = append(s.Sender, Op{Op: "close"}, Op{Op: "send", Msg: msg(false)})
	default:
		s.Sender = append(s.Sender, Op{Op: "close"})
	}
	if r.Intn(10) == 0 {
		s.Sender = append(s.Sender, Op{Op: "cancel"})
	}
	// client receiver
	nr := r.Intn(6)
	for i := 0; i < nr; i++ {
		s.Receiver = append(s.Receiver, Op{Op: pick(r, "recv", "recv", "recv", "header", "trailer")})
	}
	if r.Intn(4) == 0 {
		s.Receiver = append(s.Receiver, Op{Op: "close"}) // CloseSend racing the sender's SendMsg
	}
	if r.Intn(3) != 0 {
		s.Receiver = append(s.Receiver, Op{Op: "recvall"})
	}
	if r.Intn(12) == 0 {
		s.Receiver = append(s.Receiver, Op{Op: "cancel"})
	}
	s.RecvAfterSend = http && r.Intn(4) != 0
	// handler
	nh := r.Intn(8)
	consumed := false
	for i := 0; i < nh; i++ {
		op := pick(r, "recv", "recv", "send", "send", "sethdr", "sendhdr", "settrl", "recvall")
		if http && !consumed && (op == "send" || op == "sendhdr") {
			// half-duplex: over HTTP/1.1 a handler cannot read the request any more once it has started
			// to reply (documented caveat of the transport), so it consumes the request first
			op = "recvall"
		}
		switch op {
		case "send":
			s.Handler = append(s.Handler, Op{Op: "send", Msg: msg(false)})
		case "sethdr", "sendhdr", "settrl":
			s.Handler = append(s.Handler, Op{Op: op, MD: metadata.MD{"k": {fmt.Sprint(i)}}})
		case "recvall":
			consumed = true
			s.Handler = append(s.Handler, Op{Op: "recvall"})
		default:
			s.Handler = append(s.Handler, Op{Op: "recv"})
		}
	}
	if !http && r.Intn(6) == 0 {
		// a goroutine of the handler still uses the stream after the handler returned (net/http forbids
		// touching a ResponseWriter after the handler returned, so this shape is in-process only)
		s.Handler = append(s.Handler, Op{Op: "spawn-send", Msg: msg(false)})
	}
	if !http && kind.ClientStreams() && r.Intn(6) == 0 {
		// the usual reader goroutine of a full-duplex handler, still receiving when the handler returns
		// (receives are then its business alone: a stream has one receiver at a time)
		h := []Op{{Op: "spawn-recv"}}
		for _, o := range s.Handler {
			if o.Op != "recv" && o.Op != "recvall" {
				h = append(h, o)
			}
		}
		s.Handler = h
	}
	if r.Intn(3) == 0 {
		s.Ret = Ret{How: pick(r, "status", "plain", "eof"), Code: uint32(1 + r.Intn(16)), Msg: "handler failed"}
	}
	return s
}

func checkC05(e *core.Env) {
	curEnv = e
	e.SetRule("bounded random programs: a client sender goroutine (Send*, CloseSend, double CloseSend, Send after CloseSend, cancel) and a client receiver goroutine (Recv*, Header, Trailer, CloseSend racing the sender, cancel) against handlers (Recv*, Send*, SetHeader, SendHeader, SetTrailer, early return ok/error, a goroutine that keeps sending after the handler returned), then operations after completion; in-process (full duplex) and HTTP (incl. the handler returning while >256 KiB are still to be sent); monitors: recover() around every operation + child-crash classifier, stable-park deadlock detector over goroutine dumps once the handler returned or the context ended, result check for sends issued after the handler finished, goroutine-leak monitor and connection-leak monitor (no client connection still checked out of the transport) after each batch; distinct = (carrier, script shape)")
	e.Assume("a hang counts only when every actor/library goroutine is parked in a blocking primitive at identical frames over several samples and none is runnable; script-level waits (neither side obliged to move) are resolved by cancelling the context, after which everything must terminate")
	runC05(e, e.N(400, 3000))
}

func runC05(e *core.Env, n int) {
	curEnv = e
	inp := NewInproc(&Service{}, carrierOpt{})
	htt := NewHTTPServer(&Service{}, carrierOpt{})
	defer inp.Close()
	defer htt.Close()
	carriers := []*Carrier{inp, htt}
	// a third carrier for the programs: HTTP with bodies that arrive three bytes per read (re-chunking proxy)
	pcs := NewHTTPServer(&Service{}, carrierOpt{}).InPieces(3)
	defer pcs.Close()
	c05ExtraTransports = []*http.Transport{pcs.Transport}
	defer func() { c05ExtraTransports = nil }()
	progCarriers := []*Carrier{inp, htt, inp, htt, pcs}
	batch := 0
	var pending []*Run
	e.Cases("program", n, func(i int, r *rand.Rand) {
		c := progCarriers[i%len(progCarriers)]
		kind := pick(r, ClientStream, ServerStream, Bidi, Bidi)
		sc := genLivenessScript(r, kind, c.HTTP)
		e.Note("%s %s", c.Name, sc.Shape())
		run := c.Svc.NewRun(sc, c.Name)
		defer c.Svc.Forget(run)
		done := make(chan struct{})
		go func() {
			run.Exec(c.CC, nil, 120*time.Second)
			close(done)
		}()
		sig := c.Name + "/" + kind.String()
		w := func(dump string) map[string]any {
			m := witness(run)
			if dump != "" {
				m["goroutines"] = trunc(dump, 30000)
			}
			return m
		}
		fin, stuck, dump := waitDoneOrStuck(done, 60*time.Second)
		if !fin && stuck {
			_, hret := run.HandlerReturn()
			ctxDone := run.Ctx != nil && run.Ctx.Err() != nil
			if hret || ctxDone {
				e.Violate(sig+"/deadlock", fmt.Sprintf("all goroutines parked although the handler had returned (%v) / the context had ended (%v): %s", hret, ctxDone, parkedSummary(dump)), w(dump))
				forceEnd(run, done)
				return
			}
			// script-level wait: end the context; then everything must terminate
			e.Count("script_level_waits_resolved_by_cancel", 1)
			run.rec(Event{Who: "x", Op: "cancel"})
			run.Cancel()
			run.ReleaseAll()
			fin, stuck, dump = waitDoneOrStuck(done, 60*time.Second)
			if !fin && stuck {
				e.Violate(sig+"/deadlock-after-cancel", "operations did not terminate after the context was cancelled: "+parkedSummary(dump), w(dump))
				forceEnd(run, done)
				return
			}
		}
		if !fin {
			e.Inconclusive("C05 %s %s: watchdog without a stable park", c.Name, sc.Shape())
			forceEnd(run, done)
			return
		}
		// operations after completion: the call is complete once the client has seen its end;
		// otherwise the harness completes it by cancelling
		if out := run.ClientOutcome(); !out.Seen || (run.S.Kind.ServerStreams() && out.Err == nil) {
			run.rec(Event{Who: "x", Op: "cancel"})
			run.Cancel()
			e.Count("completed_by_cancel", 1)
		}
		endedBeforePost := run.Ctx.Err() != nil
		post := runPostOps(run)
		// a call that completed on its own is NOT cancelled here: the leak monitor must see what
		// remains without the help of cancellation (and of finalizers: the run stays referenced)
		pending = append(pending, run)
		e.Eval(c.Name+"|"+sc.Shape(), len(run.Events()) > 4)
		e.Count("events", int64(len(run.Events())))
		// (i) panics
		for _, ev := range append(run.Events(), post...) {
			if ev.Pan != "" {
				e.Violate(sig+"/panic/"+ev.Who+"."+ev.Op, "panic in "+ev.Who+"."+ev.Op+": "+trunc(ev.Pan, 700), w(""))
				break
			}
		}
		// (iii) sends issued after the handler finished (context still alive, not after own CloseSend)
		var tRet, tCancel, tClose int64 = -1, -1, -1
		for _, ev := range append(run.Events(), post...) {
			switch {
			case ev.Who == "h" && ev.Op == "return":
				tRet = ev.T
			case ev.Op == "cancel" && tCancel < 0:
				tCancel = ev.T
			case ev.Op == "close" && tClose < 0:
				tClose = ev.T - 1 // a CloseSend that may have been ahead of a concurrent send in the stream's lock
			}
		}
		var callT int64
		for _, ev := range append(run.Events(), post...) {
			if (ev.Who != "cs" && ev.Who != "cr" && ev.Who != "post") || ev.Op != "send" {
				continue
			}
			if ev.Call {
				callT = ev.T
				continue
			}
			if tRet < 0 || callT < tRet || (tCancel >= 0 && tCancel < ev.T) || (tClose >= 0 && tClose < ev.T) || (ev.Who == "post" && endedBeforePost) {
				continue
			}
			if ev.Err != nil && ev.Err != io.EOF {
				e.Violate(sig+"/send-after-finish", fmt.Sprintf("SendMsg issued after the handler had finished returned %v (want nil or io.EOF)", ev.Err), w(""))
				break
			}
		}
		// (iii-b) receives issued after the end of the stream was reported yield the final status again: a failure
		// never turns into a clean end or a message, a clean end never into a failure (only where the context
		// was alive throughout, so that no receive can owe its answer to a cancellation)
		if tCancel < 0 && !endedBeforePost && run.Ctx.Err() == nil {
			var first error
			for _, ev := range append(run.Events(), post...) {
				if (ev.Who != "cr" && ev.Who != "post") || ev.Op != "recv" || ev.Call || ev.Pan != "" {
					continue
				}
				switch {
				case first == nil:
					first = ev.Err
				case first == io.EOF && ev.Err != io.EOF:
					e.Violate(sig+"/recv-after-end/failure-after-clean-end", fmt.Sprintf("a receive had reported the clean end of the stream; a later receive returned %v", ev.Err), w(""))
					first = nil
				case first != io.EOF && (ev.Err == nil || ev.Err == io.EOF):
					e.Violate(sig+"/recv-after-end/clean-end-after-failure", fmt.Sprintf("a receive had reported the final status (%v); a later receive returned %v", first, ev.Err), w(""))
					first = nil
				}
				if first == nil && ev.Err != nil {
					first = ev.Err
				}
			}
			e.Count("recv_after_end_judged", 1)
		}
		// (iii-c) over HTTP, for handlers that consumed their whole request stream and with the context alive
		// throughout: what a receive yields at the end is the final status (io.EOF or a status error), not a raw
		// transport or framing error in its place
		if c.HTTP && tCancel < 0 && !endedBeforePost && run.Ctx.Err() == nil {
			consumed := false
			for _, o := range sc.Handler {
				if o.Op == "recvall" {
					consumed = true
				}
			}
			if _, hret := run.HandlerReturn(); consumed && hret {
				for _, ev := range append(run.Events(), post...) {
					if (ev.Who != "cr" && ev.Who != "post") || ev.Op != "recv" || ev.Call || ev.Pan != "" || ev.Err == nil || ev.Err == io.EOF {
						continue
					}
					if _, isStatus := status.FromError(ev.Err); !isStatus {
						e.Violate(sig+"/recv-final-status-replaced", fmt.Sprintf("the handler had consumed its requests and returned; a receive yielded %v (%T) where the delivered messages or the final status belong", ev.Err, ev.Err), w(""))
						break
					}
				}
			}
		}
		// delivery and status still hold for these programs where no cancellation was involved
		if tCancel < 0 && c.Inproc {
			for _, p := range deliveryOracle(run) {
				if strings.Contains(p, "panic") {
					continue
				}
				e.Violate(sig+"/delivery", p, w(""))
				break
			}
		}
		// (iv) leak monitor every 25 programs (everything is cancelled by then)
		batch++
		if os.Getenv("VCHECK_DEBUG") != "" {
			time.Sleep(30 * time.Millisecond)
			if left := libraryGoroutines(allStacks()); len(left) > 0 {
				fmt.Fprintf(os.Stderr, "LEAKDBG after %s %s completedByCancel=%v: %v\nEVENTS:\n", c.Name, sc.Shape(), endedBeforePost, left)
				for _, ev := range append(run.Events(), post...) {
					fmt.Fprintf(os.Stderr, "   %d %s %s call=%v err=%v\n", ev.T, ev.Who, ev.Op, ev.Call, ev.Err)
				}
				for _, pr := range pending {
					pr.Cancel()
				}
				pending = nil
				time.Sleep(50 * time.Millisecond)
			}
		}
		if batch%25 == 0 {
			checkLeaks(e, "after a batch of completed calls (none of them cancelled after completion)")
			checkConnLeaks(e, htt.Transport, "after a batch of completed calls (none of them cancelled after completion)")
			for _, pr := range pending {
				pr.Cancel()
			}
			pending = nil
		}
		if i < 3 {
			e.Sample(map[string]any{"carrier": c.Name, "script": sc})
		}
	})
	checkLeaks(e, "at the end of the run")
	for _, pr := range pending {
		pr.Cancel()
	}
	pending = nil

	// a full-duplex handler whose reader goroutine is parked in a receive (the client has nothing more to say and
	// has not closed its send side) when the handler itself sends its replies and returns: the client's receives
	// drain the replies and get the final status; nothing waits for the parked reader
	e.Cases("handler-returns-with-reader-parked", e.N(12, 100), func(i int, r *rand.Rand) {
		c := carriers[0]
		sc := &Script{Kind: Bidi}
		for k := r.Intn(3); k > 0; k-- {
			sc.Sender = append(sc.Sender, Op{Op: "send", Msg: &tpb.Message{Payload: []byte("said")}})
		}
		sc.Receiver = []Op{{Op: "recvall"}}
		sc.Handler = []Op{{Op: "spawn-recv"}, {Op: "gate", Gate: "reader-parked"}}
		for k := r.Intn(4); k > 0; k-- {
			sc.Handler = append(sc.Handler, Op{Op: "send", Msg: &tpb.Message{Payload: []byte("reply")}})
		}
		if r.Intn(3) == 0 {
			sc.Ret = Ret{How: "status", Code: uint32(1 + r.Intn(16)), Msg: "handler failed"}
		}
		run := c.Svc.NewRun(sc, c.Name)
		defer c.Svc.Forget(run)
		done := make(chan struct{})
		go func() {
			run.Exec(c.CC, nil, 120*time.Second)
			close(done)
		}()
		// the reader goroutine has taken what the client sent and is parked in its next receive
		for k := 0; k < 400; k++ {
			n := 0
			for _, ev := range run.Events() {
				if ev.Who == "hr" && ev.Op == "bg-recv" && ev.Call {
					n++
				}
			}
			if n > len(sc.Sender) {
				break
			}
			time.Sleep(time.Millisecond)
		}
		time.Sleep(2 * time.Millisecond)
		run.Release("reader-parked")
		fin, stuck, dump := waitDoneOrStuck(done, 60*time.Second)
		e.Eval(c.Name+"|reader-parked|"+sc.Shape(), true)
		if !fin {
			if stuck {
				e.Violate(c.Name+"/bidi/deadlock/handler-returned-with-reader-parked", "the handler sent its replies and returned while its reader goroutine was parked in a receive; the client's receives never got the final status: "+parkedSummary(dump), map[string]any{"script": sc, "events": run.Events(), "goroutines": trunc(dump, 20000)})
			} else {
				e.Inconclusive("C05 handler-returns-with-reader-parked: watchdog without a stable park")
			}
			forceEnd(run, done)
			return
		}
		run.Cancel()
	})

	// a full-duplex handler with a pusher goroutine blocked in SendMsg (the client is not listening yet) while
	// the handler itself receives what the client sends; the client says everything before it listens. Nothing
	// here waits for anything but its peer's next step: it all completes without a cancellation
	e.Cases("pusher-blocked-while-receiving", e.N(12, 100), func(i int, r *rand.Rand) {
		c := carriers[0]
		sc := &Script{Kind: Bidi, RecvAfterSend: true}
		n := 2 + r.Intn(6)
		for k := 0; k < n; k++ {
			sc.Sender = append(sc.Sender, Op{Op: "send", Msg: &tpb.Message{Payload: []byte(fmt.Sprintf("said-%d", k))}})
		}
		sc.Sender = append(sc.Sender, Op{Op: "close"})
		sc.Receiver = []Op{{Op: "recvall"}}
		sc.Handler = []Op{{Op: "bg-sends", Msg: &tpb.Message{Payload: []byte("pushed")}}, {Op: "recvall"}}
		run := c.Svc.NewRun(sc, c.Name)
		defer c.Svc.Forget(run)
		done := make(chan struct{})
		go func() {
			run.Exec(c.CC, nil, 120*time.Second)
			close(done)
		}()
		fin, stuck, dump := waitDoneOrStuck(done, 60*time.Second)
		e.Eval(c.Name+"|pusher-blocked|"+sc.Shape(), true)
		if !fin {
			if stuck {
				e.Violate(c.Name+"/bidi/deadlock/pusher-blocked-while-receiving", "a handler goroutine blocked in SendMsg (the client not listening yet) and the handler receiving what the client sends: the two directions wait for each other: "+parkedSummary(dump), map[string]any{"script": sc, "events": run.Events(), "goroutines": trunc(dump, 20000)})
			} else {
				e.Inconclusive("C05 pusher-blocked-while-receiving: watchdog without a stable park")
			}
			forceEnd(run, done)
			return
		}
		run.Cancel()
	})

	// over HTTP: the sender is blocked in SendMsg (the handler is not reading and more than the transport buffers
	// has been sent) and the receiver is blocked in RecvMsg when the caller's context ends: both return
	e.Cases("http-cancel-with-blocked-send-and-recv", e.N(10, 60), func(i int, r *rand.Rand) {
		c := carriers[1]
		sc := &Script{Kind: Bidi}
		for k := 0; k < 8; k++ {
			sc.Sender = append(sc.Sender, Op{Op: "send", Msg: &tpb.Message{Payload: make([]byte, 512<<10), Count: int32(k)}})
		}
		sc.Receiver = []Op{{Op: "recv"}, {Op: "recv"}}
		sc.Handler = []Op{{Op: "gatectx", Gate: "hold"}}
		run := c.Svc.NewRun(sc, c.Name)
		defer c.Svc.Forget(run)
		done := make(chan struct{})
		go func() {
			run.Exec(c.CC, nil, 120*time.Second)
			close(done)
		}()
		// both client goroutines parked (the event log has gone quiet with a send and a receive outstanding)
		last, quiet := -1, 0
		for k := 0; k < 2000 && quiet < 10; k++ {
			time.Sleep(2 * time.Millisecond)
			if n := len(run.Events()); n == last {
				quiet++
			} else {
				last, quiet = n, 0
			}
		}
		time.Sleep(time.Duration(r.Intn(3)) * time.Millisecond)
		run.rec(Event{Who: "x", Op: "cancel"})
		run.Cancel()
		// (the client's operations are what must return; the handler, which does not read its request, learns
		// of the caller's end only when the connection goes away and is released by hand afterwards)
		fin, stuck, dump := waitDoneOrStuck(run.ClientDone, 60*time.Second)
		e.Eval(c.Name+"|cancel-with-blocked-send-and-recv", true)
		run.ReleaseAll()
		if !fin {
			if stuck {
				e.Violate(c.Name+"/bidi/deadlock-after-cancel/blocked-send-and-recv", "the context ended while one goroutine was blocked in SendMsg and another in RecvMsg; they did not return: "+parkedSummary(dump), map[string]any{"events": run.Events(), "goroutines": trunc(dump, 20000)})
			} else {
				e.Inconclusive("C05 http-cancel-with-blocked-send-and-recv: watchdog without a stable park")
			}
			forceEnd(run, done)
			return
		}
		select {
		case <-done:
		case <-time.After(20 * time.Second):
		}
	})
	checkLeaks(e, "after calls cancelled with a send and a receive outstanding")

	// CloseSend called from another goroutine while SendMsg is inside the channel's (slow) cloner: whichever of the
	// two takes effect first, nothing panics and both return
	e.Cases("close-send-while-cloning", e.N(10, 80), func(i int, r *rand.Rand) {
		gc := &gateCloner{entered: make(chan struct{}, 1), goOn: make(chan struct{})}
		c := NewInproc(&Service{}, carrierOpt{cloner: gc})
		defer c.Close()
		kind := pick(r, ClientStream, Bidi)
		sc := &Script{Kind: kind, Handler: []Op{{Op: "recvall"}, {Op: "send", Msg: &tpb.Message{Payload: []byte("answer")}}}}
		run := c.Svc.NewRun(sc, c.Name)
		defer c.Svc.Forget(run)
		ctx, cancel := context.WithCancel(metadata.AppendToOutgoingContext(context.Background(), runKey, run.ID))
		defer cancel()
		st, err := c.CC.NewStream(ctx, kind.StreamDesc(), kind.Method())
		if err != nil {
			e.Inconclusive("C05 close-send-while-cloning: %v", err)
			return
		}
		gc.armed.Store(true)
		sendRes, closeRes := make(chan string, 1), make(chan string, 1)
		go func() { sendRes <- guard(func() { st.SendMsg(&tpb.Message{Payload: []byte("being cloned")}) }) }()
		select {
		case <-gc.entered:
		case <-time.After(watchdog):
			e.Inconclusive("C05 close-send-while-cloning: the cloner was not reached")
			close(gc.goOn)
			return
		}
		go func() { closeRes <- guard(func() { st.CloseSend() }) }()
		time.Sleep(time.Duration(1+r.Intn(3)) * time.Millisecond) // CloseSend has been called (it may be waiting for the send)
		close(gc.goOn)
		var pans []string
		for _, ch := range []chan string{sendRes, closeRes} {
			select {
			case p := <-ch:
				if p != "" {
					pans = append(pans, p)
				}
			case <-time.After(watchdog):
				e.Violate(c.Name+"/"+kind.String()+"/deadlock/close-send-while-cloning", "SendMsg (inside the cloner) and a concurrent CloseSend did not both return: "+parkedSummary(allStacks()), nil)
				return
			}
		}
		e.Eval("close-send-while-cloning|"+kind.String(), true)
		if len(pans) > 0 {
			e.Violate(c.Name+"/"+kind.String()+"/panic/close-send-while-cloning", "CloseSend was called while SendMsg was inside the channel's cloner: "+trunc(pans[0], 500), nil)
		}
		cancel()
	})

	// a send that the client side itself rejects (the message cannot be encoded), then CloseSend and a receive: the
	// half-close still ends the request stream, so the handler (which consumes it and answers) and the client finish
	// on their own - nothing has to be cancelled
	e.Cases("close-after-rejected-send", e.N(12, 100), func(i int, r *rand.Rand) {
		c := carriers[i%2]
		kind := pick(r, ClientStream, Bidi)
		sc := &Script{Kind: kind, RecvAfterSend: true}
		for k := r.Intn(3); k > 0; k-- {
			sc.Sender = append(sc.Sender, Op{Op: "send", Msg: &tpb.Message{Payload: []byte("fine")}})
		}
		sc.Sender = append(sc.Sender, Op{Op: "send", Msg: &tpb.Message{Headers: map[string][]byte{"bad\xffkey": []byte("v")}}}, Op{Op: "close"})
		sc.Handler = []Op{{Op: "recvall"}, {Op: "send", Msg: &tpb.Message{Payload: []byte("answer")}}}
		sc.Receiver = []Op{{Op: "recvall"}}
		run := c.Svc.NewRun(sc, c.Name)
		defer c.Svc.Forget(run)
		done := make(chan struct{})
		go func() {
			run.Exec(c.CC, nil, 120*time.Second)
			close(done)
		}()
		fin, stuck, dump := waitDoneOrStuck(done, 60*time.Second)
		e.Eval(c.Name+"|close-after-rejected-send|"+kind.String(), true)
		if !fin {
			if stuck {
				e.Violate(c.Name+"/"+kind.String()+"/deadlock/close-after-rejected-send", "a SendMsg was rejected by the client side itself, then CloseSend and RecvMsg: the request stream never ended, handler and client wait for each other: "+parkedSummary(dump), map[string]any{"script": sc, "events": run.Events(), "goroutines": trunc(dump, 20000)})
			} else {
				e.Inconclusive("C05 close-after-rejected-send %s: watchdog without a stable park", c.Name)
			}
			forceEnd(run, done)
			return
		}
		for _, ev := range run.Events() {
			if ev.Pan != "" {
				e.Violate(c.Name+"/"+kind.String()+"/panic/"+ev.Who+"."+ev.Op, trunc(ev.Pan, 500), map[string]any{"script": sc})
				break
			}
		}
		run.Cancel()
	})

	// a single-response method whose handler sends a surplus response, sets a trailer and fails; the client has
	// asked for the headers (so that the handler could put its second response into the stream and return) and
	// receives only after the handler has returned. The call is left alone afterwards: nothing of it may remain
	e.Cases("surplus-after-handler-returned", e.N(8, 60), func(i int, r *rand.Rand) {
		c := carriers[0]
		sc := &Script{Kind: ClientStream}
		sc.Sender = []Op{{Op: "send", Msg: &tpb.Message{Payload: []byte("q")}}, {Op: "close"}}
		sc.Handler = []Op{{Op: "recvall"}, {Op: "send", Msg: &tpb.Message{Payload: []byte("one")}}, {Op: "send", Msg: &tpb.Message{Payload: []byte("two")}}}
		single := i%3 == 2
		if single {
			// or: exactly one response, then trailers and a failure (several final frames for a client that
			// asked for the headers first)
			sc.Handler = sc.Handler[:2]
		}
		full := i%3 == 0 // a surplus response, a trailer and a failure: the most final frames a handler can leave behind
		if single || full || r.Intn(2) == 0 {
			sc.Handler = append(sc.Handler, Op{Op: "settrl", MD: metadata.MD{"t": {"v"}}})
		}
		if single || full || r.Intn(2) == 0 {
			sc.Ret = Ret{How: "status", Code: uint32(1 + r.Intn(16)), Msg: "failed after responding"}
		}
		sc.Receiver = []Op{{Op: "header"}, {Op: "gate", Gate: "handler-returned"}, {Op: "recv"}, {Op: "recv"}}
		if single {
			// one receive is all a generated CloseAndRecv does: it consumes the call
			sc.Receiver = sc.Receiver[:3]
		}
		run := c.Svc.NewRun(sc, c.Name)
		done := make(chan struct{})
		go func() {
			run.Exec(c.CC, nil, 120*time.Second)
			close(done)
		}()
		select {
		case <-run.handlerDone:
			e.Count("surplus_handler_returned_first", 1)
		case <-time.After(5 * time.Second):
		}
		run.Release("handler-returned")
		if fin, _, _ := waitDoneOrStuck(done, 60*time.Second); !fin {
			e.Inconclusive("C05 surplus-after-handler-returned: client did not finish")
			forceEnd(run, done)
			return
		}
		e.Eval("surplus-after-handler-returned|"+sc.Shape(), true)
		// (not cancelled: the leak monitor must see what remains without the help of cancellation)
		checkLeaks(e, "after a completed call whose handler had sent a surplus response and returned before the client received")
		run.Cancel()
		c.Svc.Forget(run)
	})

	// unary calls whose handler uses the metadata operations (through grpc.SetHeader / SendHeader / SetTrailer with
	// its context, the only way a unary handler has), several of them and in any order: the call completes by
	// itself, and nothing of it remains afterwards (the leak monitor below sees a handler left inside the library)
	e.Cases("unary-handler-ops", e.N(24, 200), func(i int, r *rand.Rand) {
		c := carriers[i%2]
		sc := &Script{Kind: Unary, UnaryReq: &tpb.Message{Payload: []byte("u")}, Resp: &tpb.Message{Payload: []byte("r")}}
		for k := 1 + r.Intn(4); k > 0; k-- {
			sc.Handler = append(sc.Handler, Op{Op: pick(r, "sethdr", "sendhdr", "sendhdr", "settrl"), MD: metadata.MD{"k": {fmt.Sprint(k)}}})
		}
		if r.Intn(3) == 0 {
			sc.Ret = Ret{How: "status", Code: uint32(1 + r.Intn(16)), Msg: "handler failed"}
		}
		run := c.Svc.NewRun(sc, c.Name)
		defer c.Svc.Forget(run)
		done := make(chan struct{})
		go func() {
			run.Exec(c.CC, nil, 120*time.Second)
			close(done)
		}()
		fin, stuck, dump := waitDoneOrStuck(done, 60*time.Second)
		e.Eval(c.Name+"|unary-ops|"+sc.Shape(), true)
		if !fin {
			if stuck {
				e.Violate(c.Name+"/unary/deadlock", "a unary call whose handler only sets and sends metadata never completed: "+parkedSummary(dump), map[string]any{"script": sc, "events": run.Events(), "goroutines": trunc(dump, 20000)})
			} else {
				e.Inconclusive("C05 unary-handler-ops %s: watchdog without a stable park", c.Name)
			}
			forceEnd(run, done)
			return
		}
		for _, ev := range run.Events() {
			if ev.Pan != "" {
				e.Violate(c.Name+"/unary/panic/"+ev.Who+"."+ev.Op, trunc(ev.Pan, 500), map[string]any{"script": sc})
				break
			}
		}
		run.Cancel()
	})
	checkLeaks(e, "after the unary calls with handler metadata operations had completed")

	// CloseSend issued from another goroutine while SendMsg is parked on a full stream
	e.Cases("close-vs-blocked-send", e.N(16, 120), func(i int, r *rand.Rand) {
		c := carriers[0]
		kind := pick(r, ClientStream, Bidi)
		sc := &Script{Kind: kind}
		for k := 0; k < 2+r.Intn(3); k++ {
			sc.Sender = append(sc.Sender, Op{Op: "send", Msg: &tpb.Message{Payload: []byte(fmt.Sprintf("cvs-%d-%d", i, k))}})
		}
		sc.Receiver = []Op{{Op: "gate", Gate: "sender-parked"}, {Op: "close"}, {Op: "close"}}
		if kind == Bidi {
			sc.Receiver = append(sc.Receiver, Op{Op: "recvall"})
		} else {
			sc.Receiver = append(sc.Receiver, Op{Op: "recv"})
		}
		sc.Handler = []Op{{Op: "gate", Gate: "go"}, {Op: "recvall"}, {Op: "send", Msg: &tpb.Message{Payload: []byte("reply")}}}
		run := c.Svc.NewRun(sc, c.Name)
		defer c.Svc.Forget(run)
		done := make(chan struct{})
		go func() {
			run.Exec(c.CC, nil, 120*time.Second)
			close(done)
		}()
		stalled, inSend := waitStalled(run, done)
		if stalled && inSend {
			e.Count("close_issued_while_send_parked", 1)
		}
		run.Release("sender-parked")
		time.Sleep(time.Duration(1+r.Intn(4)) * time.Millisecond)
		run.Release("go")
		fin, stuck, dump := waitDoneOrStuck(done, 60*time.Second)
		e.Eval(fmt.Sprintf("close-vs-blocked-send|%s|%d", kind, len(sc.Sender)), true)
		if !fin {
			if stuck {
				e.Violate(c.Name+"/"+kind.String()+"/deadlock", "CloseSend racing a parked SendMsg: "+parkedSummary(dump), map[string]any{"events": run.Events(), "goroutines": trunc(dump, 20000)})
			} else {
				e.Inconclusive("C05 close-vs-blocked-send: watchdog")
			}
			forceEnd(run, done)
			return
		}
		for _, ev := range run.Events() {
			if ev.Pan != "" {
				e.Violate(c.Name+"/"+kind.String()+"/panic/"+ev.Who+"."+ev.Op, "CloseSend issued while SendMsg was parked on a full stream: "+trunc(ev.Pan, 600), map[string]any{"events": run.Events()})
				break
			}
		}
		run.Cancel()
	})

	// calls that fail at the transport (nothing listens at the address): every operation returns, nothing is left
	// behind although the caller's context lives on
	e.Cases("transport-failure", e.N(4, 40), func(i int, r *rand.Rand) {
		l, err := net.Listen("tcp", "127.0.0.1:0")
		if err != nil {
			e.Inconclusive("C05 transport-failure: %v", err)
			return
		}
		addr := l.Addr().String()
		l.Close()
		tr := newHTTPTransport()
		ch := &httpgrpc.Channel{Transport: tr, BaseURL: mustURL("http://" + addr + "/")}
		var keep []grpc.ClientStream
		for k := 0; k < 5; k++ {
			kind := pick(r, ClientStream, ServerStream, Bidi)
			done := make(chan string, 1)
			go func() {
				done <- guard(func() {
					st, err := ch.NewStream(context.Background(), kind.StreamDesc(), kind.Method())
					if err != nil {
						return
					}
					keep = append(keep, st)
					st.SendMsg(&tpb.Message{Payload: []byte("x")})
					st.Header()
					st.CloseSend()
					st.RecvMsg(new(tpb.Message))
					st.RecvMsg(new(tpb.Message))
					st.Trailer()
				})
			}()
			select {
			case pan := <-done:
				if pan != "" {
					e.Violate("http/"+kind.String()+"/panic/transport-failure", trunc(pan, 500), nil)
				}
			case <-time.After(30 * time.Second):
				e.Violate("http/"+kind.String()+"/deadlock", "operations on a stream whose connection could not be established did not return: "+parkedSummary(allStacks()), nil)
				return
			}
			e.Eval("transport-failure|"+kind.String(), true)
		}
		checkLeaks(e, "after streams whose connection could not be established were used up (contexts still alive, streams still referenced)")
		runtime.KeepAlive(keep)
		tr.CloseIdleConnections()
	})

	// the handler returns at once; the client keeps sending until io.EOF and never closes its send side,
	// reads the final status and is NOT cancelled: nothing of the library may remain
	e.Cases("early-return", e.N(12, 60), func(i int, r *rand.Rand) {
		c := carriers[i%2]
		kind := pick(r, ClientStream, Bidi)
		sc := &Script{Kind: kind}
		if r.Intn(2) == 0 {
			sc.Ret = Ret{How: "status", Code: uint32(1 + r.Intn(16)), Msg: "early failure"}
		} else if kind == ClientStream {
			sc.Handler = []Op{{Op: "send", Msg: &tpb.Message{Payload: []byte("early reply")}}}
		}
		if !c.HTTP && r.Intn(2) == 0 {
			// with a reader goroutine of the handler that is still receiving when the handler returns
			sc.Handler = append([]Op{{Op: "spawn-recv"}}, sc.Handler...)
		}
		big := &tpb.Message{Payload: make([]byte, 64<<10)}
		nbig := 40
		if c.HTTP {
			nbig = 200 // more than the socket buffers and what net/http discards of an unread request body together
		}
		for k := 0; k < nbig; k++ {
			sc.Sender = append(sc.Sender, Op{Op: "send-until-eof", Msg: big})
		}
		sc.Receiver = []Op{{Op: "recvall"}}
		if kind == ClientStream {
			sc.Receiver = []Op{{Op: "recv"}, {Op: "recv"}}
		}
		sc.RecvAfterSend = c.HTTP // in process the receiver runs concurrently: nothing here relies on buffering
		run := c.Svc.NewRun(sc, c.Name)
		defer c.Svc.Forget(run)
		done := make(chan struct{})
		go func() {
			run.Exec(c.CC, nil, 120*time.Second)
			close(done)
		}()
		fin, stuck, dump := waitDoneOrStuck(done, 60*time.Second)
		e.Eval(fmt.Sprintf("early-return|%s|%s|%s", c.Name, kind, sc.Ret.How), true)
		if !fin {
			if _, hret := run.HandlerReturn(); stuck && !hret {
				e.Inconclusive("C05 early-return %s: parked before the handler returned (script-level wait)", c.Name)
				forceEnd(run, done)
				return
			}
			if stuck {
				e.Violate(c.Name+"/"+kind.String()+"/deadlock", "handler returned at once while the client kept sending: "+parkedSummary(dump), map[string]any{"events": run.Events(), "goroutines": trunc(dump, 20000)})
			} else {
				e.Inconclusive("C05 early-return %s: watchdog", c.Name)
			}
			forceEnd(run, done)
			return
		}
		for _, ev := range run.Events() {
			if ev.Pan != "" {
				e.Violate(c.Name+"/"+kind.String()+"/panic/"+ev.Who+"."+ev.Op, trunc(ev.Pan, 500), nil)
			}
			if (ev.Who == "cs") && ev.Op == "send" && !ev.Call && ev.Err != nil && ev.Err != io.EOF {
				e.Violate(c.Name+"/"+kind.String()+"/send-after-finish", fmt.Sprintf("a send racing with / following the handler's return gave %v (want nil or io.EOF)", ev.Err), map[string]any{"events": run.Events()})
				break
			}
		}
		checkLeaks(e, fmt.Sprintf("after a %s %s call whose handler returned early while the client was sending (client never closed its send side, call not cancelled)", c.Name, kind))
		run.Cancel()
		runtime.KeepAlive(run)
	})
	for _, pr := range pending {
		pr.Cancel()
	}
	runtime.KeepAlive(pending)
}

func parkedSummary(dump string) string {
	var parts []string
	for _, g := range parseStacks(dump) {
		if !g.lib && !g.actor {
			continue
		}
		top := g.frames
		for len(top) > 0 && (strings.HasPrefix(top[0], "runtime.") || strings.HasPrefix(top[0], "sync.") || strings.HasPrefix(top[0], "internal/")) {
			top = top[1:]
		}
		if len(top) > 2 {
			top = top[:2]
		}
		parts = append(parts, "["+g.state+"] "+strings.Join(top, "<"))
	}
	return strings.Join(parts, " ; ")
}

func forceEnd(run *Run, done chan struct{}) {
	if run.Cancel != nil {
		run.Cancel()
	}
	run.ReleaseAll()
	select {
	case <-done:
	case <-time.After(3 * time.Second):
	}
}

// runPostOps issues operations on the finished stream.
func runPostOps(run *Run) []Event {
	st := run.Stream
	if st == nil {
		return nil
	}
	var out []Event
	rec := func(ev Event) {
		ev.T = core.Tick()
		ev.Who = "post"
		out = append(out, ev)
	}
	done := make(chan struct{})
	go func() {
		defer close(done)
		var err error
		rec(Event{Op: "send", Call: true})
		pan := guard(func() { err = st.SendMsg(&tpb.Message{Payload: []byte("post")}) })
		rec(Event{Op: "send", Err: err, Pan: pan})
		pan = guard(func() { err = st.RecvMsg(new(tpb.Message)) })
		rec(Event{Op: "recv", Err: err, Pan: pan})
		pan = guard(func() { _, err = st.Header() })
		rec(Event{Op: "header", Err: err, Pan: pan})
		pan = guard(func() { err = st.CloseSend() })
		rec(Event{Op: "close", Err: err, Pan: pan})
		pan = guard(func() { st.Trailer() })
		rec(Event{Op: "trailer", Pan: pan})
		pan = guard(func() { err = st.RecvMsg(new(tpb.Message)) })
		rec(Event{Op: "recv", Err: err, Pan: pan})
		pan = guard(func() { err = st.SendMsg(&tpb.Message{}) })
		rec(Event{Op: "send", Err: err, Pan: pan})
	}()
	select {
	case <-done:
	case <-time.After(20 * time.Second):
		out = append(out, Event{Who: "post", Op: "hang", Pan: "operations issued after completion did not return within 20s:\n" + trunc(allStacks(), 8000)})
	}
	return out
}

// checkLeaks: after completed and cancelled calls no goroutine with library
// frames may remain.
func checkLeaks(e *core.Env, when string) {
	curEnv = e
	var left []string
	lastSig, same := "", 0
	settled := false
	for i := 0; i < 600; i++ {
		dump := allStacks()
		left = libraryGoroutines(dump)
		if len(left) == 0 {
			e.Count("leak_checks_clean", 1)
			return
		}
		// what remains counts as left behind only when nothing in the process can run any more and the
		// picture has not changed for two seconds (a loaded machine must not turn slowness into a leak)
		_, runnable, _ := parkSignature(dump)
		sig := strings.Join(left, "\n")
		if sig == lastSig && !runnable {
			same++
		} else {
			lastSig, same = sig, 0
		}
		if same >= 20 {
			settled = true
			break
		}
		time.Sleep(100 * time.Millisecond)
	}
	if !settled {
		e.Inconclusive("C05 leak check %s: goroutines with library frames kept changing for 60 s", when)
		return
	}
	if len(left) > 0 {
		e.Violate("leak/"+leakClass(left[0]), fmt.Sprintf("%d goroutine(s) with library frames remain %s: %s", len(left), when, trunc(strings.Join(left, " || "), 1500)), left)
	}
}

func leakClass(s string) string {
	for _, f := range strings.Split(s, " < ") {
		if i := strings.Index(f, "fullstorydev/grpchan/"); i >= 0 {
			f = f[i+len("fullstorydev/grpchan/"):]
			return strings.Map(func(r rune) rune {
				if r == ' ' || r == '*' || r == '(' || r == ')' {
					return -1
				}
				return r
			}, f)
		}
	}
	return "unknown"
}

var _ = status.Code
var _ grpc.ServerStream
var _ context.Context

// c05ExtraTransports: transports of further carriers whose idle connections are closed before counting.
var c05ExtraTransports []*http.Transport

// checkConnLeaks: once every call has completed, no client connection may still be checked out of the
// transport (a reply body that was never closed pins its connection and the two goroutines serving it,
// none of which has a library frame). Idle connections are closed first; what remains is in use.
func checkConnLeaks(e *core.Env, tr *http.Transport, when string) {
	tr.CloseIdleConnections()
	for _, t := range c05ExtraTransports {
		t.CloseIdleConnections()
	}
	n, lastN, same := 0, -1, 0
	for i := 0; i < 600; i++ {
		dump := allStacks()
		n = strings.Count(dump, "net/http.(*persistConn).readLoop(")
		if n == 0 {
			e.Count("connection_leak_checks_clean", 1)
			return
		}
		_, runnable, _ := parkSignature(dump)
		if n == lastN && !runnable {
			same++
		} else {
			lastN, same = n, 0
		}
		if same >= 20 {
			e.Violate("leak/connection", fmt.Sprintf("%d client connection(s) are still checked out of the HTTP transport %s: a reply body was not closed", n, when), nil)
			return
		}
		tr.CloseIdleConnections()
		for _, t := range c05ExtraTransports {
			t.CloseIdleConnections()
		}
		time.Sleep(100 * time.Millisecond)
	}
	e.Inconclusive("C05 connection check %s: connection goroutines kept changing for 60 s", when)
}

// gateCloner is a cloner that is slow on demand: once armed, its next Clone announces itself and waits.
type gateCloner struct {
	inprocgrpc.ProtoCloner
	armed   atomic.Bool
	entered chan struct{}
	goOn    chan struct{}
}

func (g *gateCloner) Clone(in interface{}) (interface{}, error) {
	if g.armed.CompareAndSwap(true, false) {
		g.entered <- struct{}{}
		<-g.goOn
	}
	return g.ProtoCloner.Clone(in)
}
