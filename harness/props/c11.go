package props

import (
	"bytes"
	"context"
	"encoding/base64"
	"errors"
	"fmt"
	"github.com/fullstorydev/grpchan"
	"google.golang.org/grpc"
	"google.golang.org/grpc/status"
	"io"
	"math/rand"
	"mime"
	"net/http"
	"net/http/httptest"
	"runtime"
	"strconv"
	"strings"
	"sync"
	"time"

	tpb "github.com/fullstorydev/grpchan/grpchantesting"
	"github.com/fullstorydev/grpchan/httpgrpc"
	"google.golang.org/grpc/codes"
	"google.golang.org/grpc/metadata"
	"google.golang.org/protobuf/encoding/protojson"
	"google.golang.org/protobuf/proto"

	"verifharness/core"
)

func init() { core.Register("C11", checkC11) }

type ctChoice struct {
	ct        string
	unaryOK   int // 1 supported, 0 unsupported, -1 either (malformed / borderline)
	streamOK  int
	jsonCodec bool
}

var ctChoices = []ctChoice{
	{"application/x-protobuf", 1, 0, false},
	{"application/x-protobuf; charset=utf-8", 1, 0, false},
	{"APPLICATION/X-PROTOBUF", 1, 0, false},
	{"application/x-protobuf;q=1;x=y", 1, 0, false},
	{"application/json", 1, 0, true},
	{"application/json; charset=utf-8", 1, 0, true},
	{"Application/JSON", 1, 0, true},
	{"application/x-httpgrpc-proto+v1", 0, 1, false},
	{"application/x-httpgrpc-proto+v1; charset=binary", 0, 1, false},
	{"APPLICATION/x-httpgrpc-proto+V1", 0, 1, false},
	{"application/x-httpgrpc-proto+v2", 0, 0, false},
	{"application/x-httpgrpc-proto", 0, 0, false},
	{"application/grpc", 0, 0, false},
	{"application/octet-stream", 0, 0, false},
	{"text/plain", 0, 0, false},
	{"application/xml", 0, 0, false},
	{"application/x-protobuf2", 0, 0, false},
	{"x-protobuf", 0, 0, false},
	{"", 0, 0, false},
	{"application/", -1, -1, false},
	{";", -1, -1, false},
	{"application/x-protobuf; charset", -1, -1, false},
	{"application/json;;", -1, -1, true},
	{"application/x-protobuf, application/json", -1, -1, false},
	{"\x00", -1, -1, false},
}

func checkC11(e *core.Env) {
	curEnv = e
	e.SetRule("generated HTTP requests: method {POST,GET,PUT,HEAD,OPTIONS,DELETE,PATCH,post,empty} x path {each registered method kind, unknown, near-miss, base-path variants} x 25 Content-Type strings (exact, parameters, case, cross-kind, unknown, empty, malformed) x header sets (valid metadata, invalid base64 in -bin headers, bad GRPC-Timeout) x bodies (valid proto / JSON, garbage, truncated or hostile frames) through httpgrpc.Server.ServeHTTP and HandleServices on a recorder; oracle: reference decision procedure for the set of admissible rejections, handler invocation counter, reply shape parser (unary body decodes, stream reply = frames* + exactly one trailer frame), JSON/protobuf equivalence; a concurrent phase (8 workers x 60 requests with mixed supported and unsupported content types to one unary method, each request judged on its own); distinct = (method class, path class, content-type, header class, body class)")
	e.Assume("malformed Content-Type strings may be accepted or rejected (either way without a panic); bad GRPC-Timeout values must only not crash")
	svc := &Service{}
	srv := httpgrpc.NewServer(httpgrpc.WithBasePath("/base/"))
	srv.RegisterService(&ScriptedDesc, svc)
	// the same service through the bulk-registration helper on a plain ServeMux
	muxReg := grpchan.HandlerMap{}
	muxReg.RegisterService(&ScriptedDesc, svc)
	mux := http.NewServeMux()
	httpgrpc.HandleServices(mux.HandleFunc, "/base/", muxReg, nil, nil)
	servers := []http.Handler{srv, mux}
	methods := []string{"POST", "POST", "POST", "POST", "GET", "PUT", "HEAD", "OPTIONS", "DELETE", "PATCH", "post", "Post"}
	n := e.N(12000, 400000)
	e.Cases("request", n, func(i int, r *rand.Rand) {
		kind := Kind(r.Intn(4))
		method := methods[r.Intn(len(methods))]
		ctc := ctChoices[r.Intn(len(ctChoices))]
		if r.Intn(3) == 0 { // bias towards the matching type so that deeper layers are reached
			if kind == Unary {
				ctc = ctChoices[r.Intn(7)]
			} else {
				ctc = ctChoices[7+r.Intn(3)]
			}
		}
		path := "/base" + kind.Method()
		pathClass := "registered"
		switch r.Intn(12) {
		case 0:
			path, pathClass = pick(r, "/base/verif.Scripted/Nope", "/verif.Scripted/Unary", "/base/verif.Scripted", "/base/", "/", "/base/verif.Scripted/Unary/x", "/base/verif.scripted/unary", "/other/verif.Scripted/Unary"), "unknown"
		}
		// headers
		hdr := http.Header{}
		hdrClass := "plain"
		md := genMD(r, 3, false)
		for k, vs := range md {
			for _, v := range vs {
				if strings.HasSuffix(k, "-bin") {
					v = base64.URLEncoding.EncodeToString([]byte(v))
				}
				hdr.Add(k, v)
			}
		}
		switch r.Intn(8) {
		case 0:
			hdr.Add("broken-bin", pick(r, "!!!notbase64", "a", "abc=d", "====", "*", "Zm9v Zm9v", "Zm9v!"))
			hdrClass = "bad-bin"
		case 1:
			hdr.Set("GRPC-Timeout", pick(r, "", "S", "5", "-5S", "5x", "99999999999999999999H", " 5S", "5S ", "1H", "1n", "0m"))
			hdrClass = "timeout"
		}
		// body
		req := genMsg(r, fmt.Sprintf("c11-%d", i), false)
		req.ProtoReflect().SetUnknown(nil)
		req.ErrorDetails = nil // Any values of unknown types have no JSON form
		var body []byte
		bodyClass := "valid"
		wantDecodable := true
		midFrame := false
		if kind == Unary {
			if ctc.jsonCodec {
				body, _ = protojson.Marshal(req)
			} else {
				body, _ = proto.Marshal(req)
			}
			switch r.Intn(6) {
			case 0:
				// garbage for both codecs: an invalid tag / invalid JSON
				body, bodyClass, wantDecodable = []byte("\xff\xff\xff\xff\xff\xff\xff\xff\xff\xff\x01{"), "garbage", false
			case 1:
				body, bodyClass = nil, "empty"
				if ctc.jsonCodec {
					wantDecodable = false
				}
			}
		} else {
			nreq := 1
			if kind.ClientStreams() {
				nreq = r.Intn(4)
			}
			var msgs []*tpb.Message
			for k := 0; k < nreq; k++ {
				msgs = append(msgs, genMsg(r, fmt.Sprintf("c11-%d-%d", i, k), false))
			}
			fbs := encodeStream(msgs, nil)
			body = fbs.bytes
			switch r.Intn(6) {
			case 0:
				if len(body) > 2 {
					cutAt := len(body) - 1 - r.Intn(len(body)-1)
					if r.Intn(3) == 0 && len(fbs.msgEnds) > 0 {
						// exactly after a size preface: not a single payload byte follows
						k := r.Intn(len(fbs.msgEnds))
						start := 0
						if k > 0 {
							start = fbs.msgEnds[k-1]
						}
						if fbs.msgEnds[k]-start > 4 {
							cutAt = start + 4
						}
					}
					body, bodyClass = body[:cutAt], "truncated"
					midFrame = cutAt != 0
					for _, me := range fbs.msgEnds {
						if me == cutAt {
							midFrame = false
						}
					}
				}
			case 1:
				pfx := pick(r, []byte{0x7f, 0xff, 0xff, 0xff}, []byte{0x80, 0, 0, 0}, []byte{0xff, 0xff, 0xff, 0xff}, []byte{0xff, 0xff, 0xff, 0xfb}, []byte{0x06, 0x40, 0, 1}, []byte{0x80, 0, 0, 1})
				body, bodyClass = append(append(body, pfx...), 1, 2, 3), "hostile-prefix"
			case 2:
				body, bodyClass = randBytes(r, r.Intn(40)), "garbage"
			case 3:
				if len(msgs) > 0 {
					// a frame whose payload is not a valid message
					var b bytes.Buffer
					frame32(&b, 4, []byte("\xff\xff\xff\xff"))
					body, bodyClass = b.Bytes(), "undecodable-message"
				}
			}
		}
		sc := &Script{Kind: kind, UnaryReq: req, Resp: &tpb.Message{Payload: []byte("reply"), Count: 42}}
		if kind != Unary {
			sc.Handler = []Op{{Op: "recvall"}}
			nresp := 1
			if kind.ServerStreams() {
				nresp = r.Intn(3)
			}
			for k := 0; k < nresp; k++ {
				sc.Handler = append(sc.Handler, Op{Op: "send", Msg: &tpb.Message{Payload: []byte("reply"), Count: int32(k)}})
			}
			if r.Intn(2) == 0 {
				sc.Ret = Ret{How: "recverr"}
			} else if r.Intn(6) == 0 {
				// an error whose status claims OK and says nothing: still a failed call with a trailer frame
				sc.Ret = Ret{How: "okcoded", Msg: ""}
			}
			if r.Intn(4) == 0 {
				// trailer metadata, sometimes of a kind the trailer message cannot carry: the reply must
				// still end with exactly one trailer frame
				sc.Handler = append(sc.Handler, Op{Op: "settrl", MD: metadata.MD{"t-bin": {pick(r, "plain", "\xff\xfe", "\x00\xc3")}, "t": {pick(r, "v", "\xc3\x28")}}})
			}
		}
		if r.Intn(5) == 0 {
			sc.Ret = Ret{How: "status", Code: uint32(1 + r.Intn(16)), Msg: "handler says no"}
			if r.Intn(3) == 0 {
				// codes outside the standard table, starting right behind it: an error reply like any other
				sc.Ret.Code = pick[uint32](r, 17, 17, 18, 20, 64, 255, 1<<31, 1<<32-1)
			}
		}
		run := svc.NewRun(sc, "http-direct")
		defer svc.Forget(run)
		hr := httptest.NewRequest("POST", path, bytes.NewReader(body))
		brokenUpload := kind == Unary && bodyClass == "valid" && len(body) > 2 && r.Intn(12) == 0
		if brokenUpload {
			// an upload that breaks off (the connection went away mid-body): the handler does not run, and
			// nothing of this request shows up in a later one
			bodyClass = "broken-upload"
			hr = httptest.NewRequest("POST", path, &cutBody{data: append([]byte{}, body[:1+r.Intn(len(body)-1)]...), step: 7, endErr: errors.New("read tcp: connection reset by peer")})
			hr.ContentLength = int64(len(body))
		}
		hr.Method = method
		for k, v := range hdr {
			hr.Header[k] = v
		}
		if ctc.ct != "" || r.Intn(2) == 0 {
			hr.Header["Content-Type"] = []string{ctc.ct}
		}
		hr.Header.Set("X-Verif-Run", run.ID)
		if r.Intn(4) == 0 {
			// a body of undeclared length (chunked transfer encoding)
			hr.ContentLength = -1
			hr.TransferEncoding = []string{"chunked"}
		}
		rec := httptest.NewRecorder()
		e.Note("%s %s ct=%q hdr=%s body=%s", method, path, ctc.ct, hdrClass, bodyClass)
		pan := guard(func() { servers[i%2].ServeHTTP(rec, hr) })
		count := int(run.hStarted.Load())
		mclass := "POST"
		if method != "POST" {
			mclass = "other"
		}
		e.Eval(fmt.Sprintf("%s|%s|%s|%q|%s|%s", mclass, kind, pathClass, ctc.ct, hdrClass, bodyClass), true)
		w := map[string]any{"method": method, "path": path, "content_type": ctc.ct, "headers": hdrClass, "body_class": bodyClass, "kind": kind.String(), "http_status": rec.Code, "handler_invocations": count, "reply_len": rec.Body.Len()}
		sig := "server/" + kindClass(kind) + "/"
		if i < 4 {
			e.Sample(w)
		}
		if pan != "" {
			e.Violate(sig+"panic/"+hdrClass+"/"+bodyClass, "request made the server panic: "+trunc(pan, 600), w)
			return
		}
		for _, ev := range run.Events() {
			if ev.Pan != "" {
				e.Violate(sig+"panic-in-handler-op/"+bodyClass, "a stream operation of the handler panicked inside the library: "+trunc(ev.Pan, 500), w)
				break
			}
		}
		if brokenUpload {
			if count != 0 && pathClass != "unknown" {
				e.Violate(sig+"handler-ran-for-broken-upload", fmt.Sprintf("the request body broke off before it was complete; the handler ran (HTTP %d)", rec.Code), w)
			}
			return
		}
		if count > 1 {
			e.Violate(sig+"handler-twice", fmt.Sprintf("handler invoked %d times", count), w)
		}
		// admissible rejections
		var rejections []int
		supported := ctc.unaryOK
		if kind != Unary {
			supported = ctc.streamOK
		}
		if pathClass == "unknown" {
			rejections = []int{404}
			if rec.Code == 301 || rec.Code == 307 || rec.Code == 308 {
				return // net/http's own path canonicalisation
			}
		} else {
			if method != "POST" {
				rejections = append(rejections, 405)
			}
			if supported == 0 {
				rejections = append(rejections, 415)
			}
			if hdrClass == "bad-bin" {
				rejections = append(rejections, 400)
			}
		}
		if len(rejections) > 0 {
			okStatus := false
			for _, s := range rejections {
				if rec.Code == s {
					okStatus = true
				}
			}
			if supported == -1 && rec.Code == 415 {
				okStatus = true
			}
			if count != 0 {
				e.Violate(sig+"handler-ran-for-invalid-request", fmt.Sprintf("handler ran although the request must be rejected with one of %v (answered %d)", rejections, rec.Code), w)
			} else if !okStatus {
				e.Violate(sig+"wrong-rejection", fmt.Sprintf("request must be rejected with one of %v, answered %d", rejections, rec.Code), w)
			}
			return
		}
		if supported == -1 {
			if rec.Code == 415 && count == 0 {
				return
			}
			if ctc.jsonCodec {
				// accepted as JSON
			}
		}
		// valid request: reply shape
		if kind == Unary {
			grpcStatus := rec.Header().Get("X-GRPC-Status")
			if !wantDecodable && (supported == 1) {
				if count != 0 && false {
					_ = count
				}
				code := strings.SplitN(grpcStatus, ":", 2)[0]
				if code != strconv.Itoa(int(codes.InvalidArgument)) {
					e.Violate(sig+"undecodable-not-invalid-argument", fmt.Sprintf("undecodable unary request: HTTP %d, X-GRPC-Status %q (want code 3)", rec.Code, grpcStatus), w)
				}
				return
			}
			if supported != 1 {
				return
			}
			if count == 0 && hdrClass == "timeout" {
				return // a server may refuse to dispatch a call whose time is already up
			}
			if count != 1 {
				e.Violate(sig+"valid-not-run", fmt.Sprintf("valid unary request: handler invoked %d times (HTTP %d, X-GRPC-Status %q)", count, rec.Code, grpcStatus), w)
				return
			}
			// request equivalence
			if hrq := run.Rets("h", "recv"); bodyClass == "valid" && len(hrq) > 0 && !proto.Equal(hrq[0].Msg, req) {
				e.Violate(sig+"request-altered/"+fmt.Sprint(ctc.jsonCodec), "handler received a request that differs from the one encoded", w)
			}
			if sc.Ret.How == "status" {
				// (the header carries the code as a 32-bit number, signed or unsigned: C14 judges what the caller recovers)
				if (!strings.HasPrefix(grpcStatus, fmt.Sprint(sc.Ret.Code)+":") && !strings.HasPrefix(grpcStatus, fmt.Sprint(int32(sc.Ret.Code))+":")) || rec.Code < 400 {
					e.Violate(sig+"error-reply", fmt.Sprintf("handler failed with code %d: HTTP %d, X-GRPC-Status %q", sc.Ret.Code, rec.Code, grpcStatus), w)
				}
				return
			}
			if rec.Code != 200 {
				e.Violate(sig+"ok-reply-status", fmt.Sprintf("successful unary call answered HTTP %d", rec.Code), w)
				return
			}
			out := new(tpb.Message)
			var derr error
			if ctc.jsonCodec {
				derr = protojson.Unmarshal(rec.Body.Bytes(), out)
			} else {
				derr = proto.Unmarshal(rec.Body.Bytes(), out)
			}
			if derr != nil || !proto.Equal(out, sc.Resp) {
				e.Violate(sig+"ok-reply-body/"+fmt.Sprint(ctc.jsonCodec), fmt.Sprintf("unary reply does not decode to the handler's response with the request's codec (err=%v)", derr), w)
			}
			if mt, _, _ := mime.ParseMediaType(rec.Header().Get("Content-Type")); (ctc.jsonCodec && mt != "application/json") || (!ctc.jsonCodec && mt != httpgrpc.UnaryRpcContentType_V1) {
				e.Violate(sig+"reply-content-type", fmt.Sprintf("successful unary reply to a %q request is labelled %q", ctc.ct, rec.Header().Get("Content-Type")), w)
			}
			if cl := rec.Header().Get("Content-Length"); cl != "" && cl != strconv.Itoa(rec.Body.Len()) {
				e.Violate(sig+"content-length", fmt.Sprintf("Content-Length %s but body has %d bytes", cl, rec.Body.Len()), w)
			}
			return
		}
		if supported != 1 {
			return
		}
		if count == 0 && hdrClass == "timeout" {
			return // a server may refuse to dispatch a call whose time is already up
		}
		if count != 1 {
			e.Violate(sig+"valid-not-run", fmt.Sprintf("valid streaming request: handler invoked %d times (HTTP %d)", count, rec.Code), w)
			return
		}
		if rec.Code != 200 && bodyClass == "valid" && (sc.Ret.How == "" || sc.Ret.How == "ok") {
			e.Violate(sig+"stream-reply-status", fmt.Sprintf("streaming reply to a well-formed request whose handler succeeded has HTTP status %d", rec.Code), w)
		}
		if mt, _, _ := mime.ParseMediaType(rec.Header().Get("Content-Type")); rec.Code == 200 && mt != httpgrpc.StreamRpcContentType_V1 {
			e.Violate(sig+"reply-content-type", fmt.Sprintf("streaming reply to a %q request is labelled %q", ctc.ct, rec.Header().Get("Content-Type")), w)
		}
		data, ntr, tr, rest := parseReply(rec.Body.Bytes())
		if ntr != 1 || rest != 0 || tr == nil {
			e.Violate(sig+"stream-reply-shape/"+bodyClass, fmt.Sprintf("streaming reply: %d data frames, %d trailer frames, %d stray bytes, trailer decodable=%v", len(data), ntr, rest, tr != nil), w)
			return
		}
		if midFrame {
			sawErr := false
			for _, ev := range run.Rets("h", "recv") {
				if ev.Err != nil && ev.Err != io.EOF {
					sawErr = true
				}
			}
			if !sawErr && len(run.Rets("h", "recv")) > 0 {
				e.Violate(sig+"truncated-request-as-clean-end", "request body cut in the middle of a frame: the handler's receives ended with a clean io.EOF", w)
			}
		}
		if (bodyClass == "truncated" || bodyClass == "undecodable-message" || bodyClass == "garbage" || bodyClass == "hostile-prefix") && sc.Ret.How == "recverr" {
			// the handler returns its receive error: the caller must not be told OK
			for _, ev := range run.Rets("h", "recv") {
				if ev.Err != nil && ev.Err != io.EOF && tr.Code == 0 {
					e.Violate(sig+"undecodable-reported-ok/"+bodyClass, fmt.Sprintf("handler's RecvMsg failed with %v and the handler returned it, but the trailer says OK", ev.Err), w)
					break
				}
			}
		}
		if i < 3 {
			e.Sample(w)
		}
	})

	// JSON and protobuf encodings of the same unary request are handled identically (also through HandleServices)
	e.Cases("json-equivalence", e.N(500, 10000), func(i int, r *rand.Rand) {
		req := genMsg(r, fmt.Sprintf("c11j-%d", i), false)
		req.ProtoReflect().SetUnknown(nil)
		req.ErrorDetails = nil
		resp := genMsg(r, fmt.Sprintf("c11jr-%d", i), false)
		resp.ProtoReflect().SetUnknown(nil)
		resp.ErrorDetails = nil
		var got [2]*tpb.Message
		var rep [2]*tpb.Message
		var codesSeen [2]string
		for j, js := range []bool{false, true} {
			sc := &Script{Kind: Unary, UnaryReq: req, Resp: resp}
			if i%4 == 0 {
				sc.Ret = Ret{How: "status", Code: 7, Msg: "denied"}
			}
			run := svc.NewRun(sc, "http-direct")
			var body []byte
			ct := httpgrpc.UnaryRpcContentType_V1
			if js {
				body, _ = protojson.Marshal(req)
				ct = httpgrpc.ApplicationJson
			} else {
				body, _ = proto.Marshal(req)
			}
			hr := httptest.NewRequest("POST", "/base"+Unary.Method(), bytes.NewReader(body))
			hr.Header.Set("Content-Type", ct)
			hr.Header.Set("X-Verif-Run", run.ID)
			rec := httptest.NewRecorder()
			servers[i%2].ServeHTTP(rec, hr)
			svc.Forget(run)
			if hrq := run.Rets("h", "recv"); len(hrq) > 0 {
				got[j] = hrq[0].Msg
			}
			codesSeen[j] = fmt.Sprintf("%d|%s", rec.Code, rec.Header().Get("X-GRPC-Status"))
			out := new(tpb.Message)
			if rec.Code == 200 {
				if js {
					if protojson.Unmarshal(rec.Body.Bytes(), out) == nil {
						rep[j] = out
					}
				} else if proto.Unmarshal(rec.Body.Bytes(), out) == nil {
					rep[j] = out
				}
			}
		}
		e.Eval(fmt.Sprintf("json-eq|%d", len(req.Payload)/32), true)
		w := map[string]any{"request": msgDesc(req), "status_proto": codesSeen[0], "status_json": codesSeen[1]}
		if got[0] == nil || got[1] == nil || !proto.Equal(got[0], got[1]) || !proto.Equal(got[0], req) {
			e.Violate("server/unary/json-equivalence/request", "the handler did not receive equal requests for the JSON and protobuf encodings", w)
		}
		if codesSeen[0] != codesSeen[1] {
			e.Violate("server/unary/json-equivalence/status", fmt.Sprintf("different outcomes: protobuf %s vs JSON %s", codesSeen[0], codesSeen[1]), w)
		}
		if (rep[0] == nil) != (rep[1] == nil) || (rep[0] != nil && !proto.Equal(rep[0], rep[1])) {
			e.Violate("server/unary/json-equivalence/reply", "replies differ between the JSON and protobuf encodings", w)
		}
	})

	// over a real connection: header metadata that the handler sets under names HTTP itself gives a meaning to
	// (relayed from somewhere, or echoed from the request) does not deform the reply
	// two JSON unary calls that overlap: the first one's reply is on its way to a slow client (its Write has been
	// entered and has not copied anything yet) while the second one is served from start to finish. Each client
	// gets the reply of its own call. (One processor, so that whatever the server re-uses between calls is re-used.)
	e.Cases("json-overlapping-replies", e.N(8, 60), func(i int, r *rand.Rand) {
		prev := runtime.GOMAXPROCS(1)
		defer runtime.GOMAXPROCS(prev)
		js := i%3 != 2
		ct := httpgrpc.UnaryRpcContentType_V1
		if js {
			ct = httpgrpc.ApplicationJson
		}
		mk := func(tag string, n int) (*Run, *http.Request, *tpb.Message) {
			reply := &tpb.Message{Payload: bytes.Repeat([]byte(tag), n), Count: int32(n)}
			sc := &Script{Kind: Unary, UnaryReq: &tpb.Message{Payload: []byte("q")}, Resp: reply}
			run := svc.NewRun(sc, "http-direct")
			var body []byte
			if js {
				body, _ = protojson.Marshal(sc.UnaryReq)
			} else {
				body, _ = proto.Marshal(sc.UnaryReq)
			}
			hr := httptest.NewRequest("POST", "/base"+Unary.Method(), bytes.NewReader(body))
			hr.Header.Set("Content-Type", ct)
			hr.Header.Set("X-Verif-Run", run.ID)
			return run, hr, reply
		}
		n := 20 + r.Intn(200)
		runA, reqA, replyA := mk("A", n)
		runB, reqB, _ := mk("B", n+r.Intn(3))
		defer svc.Forget(runA)
		defer svc.Forget(runB)
		slow := &slowWriter{hdr: http.Header{}, entered: make(chan struct{}), goOn: make(chan struct{})}
		doneA := make(chan string, 1)
		go func() { doneA <- guard(func() { servers[0].ServeHTTP(slow, reqA) }) }()
		select {
		case <-slow.entered:
		case p := <-doneA:
			e.Inconclusive("C11 json-overlapping-replies: first call ended before writing (%s)", trunc(p, 100))
			return
		case <-time.After(watchdog):
			e.Inconclusive("C11 json-overlapping-replies: first call never wrote")
			return
		}
		recB := httptest.NewRecorder()
		panB := guard(func() { servers[0].ServeHTTP(recB, reqB) })
		close(slow.goOn)
		panA := <-doneA
		e.Eval(fmt.Sprintf("json-overlapping-replies|json=%v", js), true)
		w := map[string]any{"content_type": ct, "reply_a": fmt.Sprintf("%.80q", slow.buf.String())}
		if panA != "" || panB != "" {
			e.Violate("server/unary/overlapping-replies/panic", trunc(panA+panB, 400), w)
			return
		}
		got := new(tpb.Message)
		var derr error
		if js {
			derr = protojson.Unmarshal(slow.buf.Bytes(), got)
		} else {
			derr = proto.Unmarshal(slow.buf.Bytes(), got)
		}
		if derr != nil || !proto.Equal(got, replyA) {
			e.Violate(fmt.Sprintf("server/unary/overlapping-replies/json=%v", js), fmt.Sprintf("two calls overlapped (the first one's reply was being written when the second was served): the first client's reply does not decode to the first handler's response (decode error: %v, payload starts %.20q)", derr, got.GetPayload()), w)
		}
	})

	// servers configured with an error renderer of their own (one that leaves the reply alone, one that answers
	// 200 with an envelope): requests that must be rejected before any application code runs are still rejected
	// with their 4xx status, and neither the handler nor the renderer is asked
	{
		rendererCalls := 0
		nothing := httpgrpc.ErrorRenderer(func(context.Context, *status.Status, http.ResponseWriter) { rendererCalls++ })
		envelope := httpgrpc.ErrorRenderer(func(_ context.Context, st *status.Status, w http.ResponseWriter) {
			rendererCalls++
			w.Header().Set("Content-Type", "application/json")
			w.WriteHeader(200)
			fmt.Fprintf(w, "{\"error\":%q}", st.Message())
		})
		for ri, ropt := range []httpgrpc.ServerOption{nothing, envelope} {
			rsvc := &Service{}
			rsrv := httpgrpc.NewServer(ropt)
			rsrv.RegisterService(&ScriptedDesc, rsvc)
			for _, kind := range []Kind{Unary, ServerStream} {
				for vi, variant := range []string{"bad-bin-header", "unsupported-content-type", "get"} {
					sc := &Script{Kind: kind, UnaryReq: &tpb.Message{Payload: []byte("q")}, Resp: &tpb.Message{Payload: []byte("r")}}
					if kind != Unary {
						sc.Handler = []Op{{Op: "recv"}}
					}
					run := rsvc.NewRun(sc, "http-direct")
					body, _ := proto.Marshal(sc.UnaryReq)
					ct := httpgrpc.UnaryRpcContentType_V1
					if kind != Unary {
						body, ct = streamBody(sc.UnaryReq), httpgrpc.StreamRpcContentType_V1
					}
					method, want := "POST", 400
					hr := httptest.NewRequest("POST", kind.Method(), bytes.NewReader(body))
					hr.Header.Set("X-Verif-Run", run.ID)
					switch variant {
					case "bad-bin-header":
						hr.Header["X-Blob-Bin"] = []string{"!!not base64!!"}
					case "unsupported-content-type":
						ct, want = "text/plain", 415
					case "get":
						method, want = "GET", 405
					}
					hr.Method = method
					hr.Header.Set("Content-Type", ct)
					rec := httptest.NewRecorder()
					before := rendererCalls
					pan := guard(func() { rsrv.ServeHTTP(rec, hr) })
					rsvc.Forget(run)
					e.Eval(fmt.Sprintf("custom-renderer|%d|%s|%s", ri, kind, variant), true)
					w := map[string]any{"renderer": []string{"writes nothing", "200 envelope"}[ri], "kind": kind.String(), "variant": variant, "http_status": rec.Code, "handler_invocations": run.hStarted.Load(), "renderer_calls": rendererCalls - before}
					switch {
					case pan != "":
						e.Violate("server/"+kindClass(kind)+"/custom-renderer/panic", trunc(pan, 300), w)
					case run.hStarted.Load() != 0:
						e.Violate("server/"+kindClass(kind)+"/handler-ran-for-invalid-request", fmt.Sprintf("%s: the handler ran (HTTP %d)", variant, rec.Code), w)
					case rec.Code != want:
						e.Violate("server/"+kindClass(kind)+"/custom-renderer/wrong-rejection", fmt.Sprintf("a server with an error renderer of its own answered a request that must be rejected with %d (%s) with HTTP %d", want, variant, rec.Code), w)
					}
					_ = vi
				}
			}
		}
	}

	// a service whose messages are of the older generated kind (plain structs with protobuf tags and the three
	// v1 methods; many code bases still have them): JSON requests are handled like protobuf ones
	legacySrv := httpgrpc.NewServer()
	legacySrv.RegisterService(&grpc.ServiceDesc{ServiceName: "verif.Legacy", HandlerType: (*interface{})(nil),
		Methods: []grpc.MethodDesc{{MethodName: "Echo", Handler: func(_ interface{}, ctx context.Context, dec func(interface{}) error, _ grpc.UnaryServerInterceptor) (interface{}, error) {
			in := new(legacyMsg)
			if err := dec(in); err != nil {
				return nil, err
			}
			return &legacyMsg{Name: "re: " + in.Name}, nil
		}}}}, struct{}{})
	e.Cases("legacy-messages", e.N(12, 100), func(i int, r *rand.Rand) {
		name := fmt.Sprintf("legacy-%d-%s", i, genIdent(r))
		var codes [2]int
		var replies [2]string
		for j, ct := range []string{httpgrpc.UnaryRpcContentType_V1, httpgrpc.ApplicationJson} {
			body := append([]byte{0x0a, byte(len(name))}, name...)
			if j == 1 {
				body = []byte(fmt.Sprintf("{\"name\":%q}", name))
			}
			hr := httptest.NewRequest("POST", "/verif.Legacy/Echo", bytes.NewReader(body))
			hr.Header.Set("Content-Type", ct)
			rec := httptest.NewRecorder()
			if pan := guard(func() { legacySrv.ServeHTTP(rec, hr) }); pan != "" {
				e.Violate("server/unary/legacy-messages/panic", fmt.Sprintf("content type %s: %s", ct, trunc(pan, 400)), map[string]any{"content_type": ct})
				return
			}
			codes[j] = rec.Code
			replies[j] = rec.Body.String()
		}
		e.Eval("legacy-messages", true)
		w := map[string]any{"name": name, "http_proto": codes[0], "http_json": codes[1], "reply_proto": fmt.Sprintf("%q", replies[0]), "reply_json": replies[1]}
		wantProto := string(append([]byte{0x0a, byte(len("re: " + name))}, "re: "+name...))
		if codes[0] != 200 || replies[0] != wantProto {
			e.Violate("server/unary/legacy-messages/protobuf", fmt.Sprintf("protobuf request to a service with older-style messages: HTTP %d, reply %q", codes[0], replies[0]), w)
		}
		if codes[1] != 200 || !strings.Contains(strings.ReplaceAll(replies[1], " ", ""), fmt.Sprintf("\"name\":%q", "re: "+name)[0:7]) || !strings.Contains(replies[1], name) {
			e.Violate("server/unary/legacy-messages/json-differs", fmt.Sprintf("the JSON encoding of a request that the protobuf encoding gets answered with HTTP %d was answered with HTTP %d, reply %q", codes[0], codes[1], replies[1]), w)
		}
	})

	rc := NewHTTPServer(&Service{}, carrierOpt{})
	defer rc.Close()
	e.Cases("reserved-metadata", e.N(24, 200), func(i int, r *rand.Rand) {
		// (also spelt the way http.Header spells them: a handler that relays an upstream reply's header as
		// metadata.MD(upstream.Header) hands over such keys)
		name := pick(r, "content-length", "Content-Length", "transfer-encoding", "Transfer-Encoding", "connection", "content-type", "Content-Type", "trailer")
		val := pick(r, "5", "0", "chunked", "close", "text/plain", "999999")
		nmsg := 1 + r.Intn(3)
		sc := &Script{Kind: ServerStream, Handler: []Op{{Op: "recv"}, {Op: "sethdr", MD: metadata.MD{name: {val}}}}}
		for k := 0; k < nmsg; k++ {
			sc.Handler = append(sc.Handler, Op{Op: "send", Msg: &tpb.Message{Payload: []byte(fmt.Sprintf("reserved-%d-%d", i, k))}})
		}
		run := rc.Svc.NewRun(sc, rc.Name)
		defer rc.Svc.Forget(run)
		hr, _ := http.NewRequest("POST", rc.URL.String()+ServerStream.Method()[1:], bytes.NewReader(streamBody(&tpb.Message{})))
		hr.Header.Set("Content-Type", httpgrpc.StreamRpcContentType_V1)
		hr.Header.Set("X-Verif-Run", run.ID)
		resp, err := (&http.Client{Transport: rc.Transport, Timeout: 20 * time.Second}).Do(hr)
		e.Eval("reserved-metadata|"+strings.ToLower(name)+"|"+val, true)
		w := map[string]any{"handler_header_metadata": name + ": " + val, "messages": nmsg}
		if err != nil {
			e.Violate("server/stream/reserved-metadata/no-reply", fmt.Sprintf("handler set header metadata %q=%q: the request failed: %v", name, val, err), w)
			return
		}
		body, rerr := io.ReadAll(resp.Body)
		resp.Body.Close()
		data, ntr, tr, rest := parseReply(body)
		if rerr != nil || ntr != 1 || rest != 0 || tr == nil || len(data) != nmsg {
			e.Violate("server/stream/reserved-metadata/reply-shape", fmt.Sprintf("handler set header metadata %q=%q and sent %d messages: the reply has %d data frames, %d trailer frames, %d stray bytes (read error: %v)", name, val, nmsg, len(data), ntr, rest, rerr), w)
		}
	})

	// the same method asked concurrently with different content types: each request is judged on its own
	e.Cases("concurrent-types", e.N(6, 100), func(i int, r *rand.Rand) {
		type ctKind struct {
			ct        string
			supported bool
			json      bool
		}
		kinds := []ctKind{{"application/x-protobuf", true, false}, {"application/json", true, true}, {"text/plain", false, false}, {"application/octet-stream", false, false}, {"application/x-protobuf; charset=utf-8", true, false}}
		const workers, perWorker = 8, 60
		var wg sync.WaitGroup
		var mu sync.Mutex
		bad := map[string]string{}
		for wkr := 0; wkr < workers; wkr++ {
			wr := rand.New(rand.NewSource(r.Int63()))
			wg.Add(1)
			go func(wkr int) {
				defer wg.Done()
				for k := 0; k < perWorker; k++ {
					ck := kinds[wr.Intn(len(kinds))]
					req := &tpb.Message{Payload: []byte(fmt.Sprintf("c11-conc-%d-%d-%d", i, wkr, k)), Count: int32(k)}
					want := &tpb.Message{Payload: []byte(fmt.Sprintf("resp-%d-%d", wkr, k))}
					sc := &Script{Kind: Unary, UnaryReq: req, Resp: want}
					run := svc.NewRun(sc, "http-direct")
					var body []byte
					if ck.json {
						body, _ = protojson.Marshal(req)
					} else {
						body, _ = proto.Marshal(req)
					}
					hr := httptest.NewRequest("POST", "/base"+Unary.Method(), bytes.NewReader(body))
					hr.Header.Set("Content-Type", ck.ct)
					hr.Header.Set("X-Verif-Run", run.ID)
					rec := httptest.NewRecorder()
					pan := guard(func() { srv.ServeHTTP(rec, hr) })
					_, ran := run.HandlerReturn()
					svc.Forget(run)
					problem := ""
					switch {
					case pan != "":
						problem = "panic: " + trunc(pan, 300)
					case !ck.supported && (ran || rec.Code != 415):
						problem = fmt.Sprintf("request with unsupported Content-Type %q: HTTP %d, handler ran=%v (want 415 and no handler)", ck.ct, rec.Code, ran)
					case ck.supported && (!ran || rec.Code != 200):
						problem = fmt.Sprintf("valid request with Content-Type %q: HTTP %d, handler ran=%v (want 200 and one handler run)", ck.ct, rec.Code, ran)
					case ck.supported:
						got := new(tpb.Message)
						var derr error
						if ck.json {
							derr = protojson.Unmarshal(rec.Body.Bytes(), got)
						} else {
							derr = proto.Unmarshal(rec.Body.Bytes(), got)
						}
						hrcv := run.Rets("h", "recv")
						if derr != nil || !proto.Equal(got, want) {
							problem = fmt.Sprintf("valid request with Content-Type %q: the reply does not decode with the request's encoding to the handler's response (%v)", ck.ct, derr)
						} else if len(hrcv) != 1 || hrcv[0].Msg == nil || !proto.Equal(hrcv[0].Msg, req) {
							problem = fmt.Sprintf("valid request with Content-Type %q: the handler did not receive the request that was sent", ck.ct)
						}
					}
					e.Eval("concurrent-types|"+ck.ct, true)
					if problem != "" {
						mu.Lock()
						cls := "unsupported"
						if ck.supported {
							cls = "supported"
						}
						bad[cls] = problem
						mu.Unlock()
					}
				}
			}(wkr)
		}
		wg.Wait()
		e.Count("concurrent_requests", workers*perWorker)
		for cls, p := range bad {
			e.Violate("server/unary/concurrent-types/"+cls, p+" [8 workers sending mixed content types to one method]", nil)
		}
	})
}

// parseReply parses a streaming reply body strictly.
func parseReply(b []byte) (data [][]byte, trailers int, tr *httpgrpc.HttpTrailer, rest int) {
	for len(b) >= 4 {
		sz := int32(uint32(b[0])<<24 | uint32(b[1])<<16 | uint32(b[2])<<8 | uint32(b[3]))
		n := int(sz)
		if sz < 0 {
			n = -n
		}
		if n > len(b)-4 {
			return data, trailers, tr, len(b)
		}
		payload := b[4 : 4+n]
		b = b[4+n:]
		if sz < 0 {
			trailers++
			t := new(httpgrpc.HttpTrailer)
			if proto.Unmarshal(payload, t) == nil {
				tr = t
			}
			if len(b) > 0 {
				return data, trailers, tr, len(b)
			}
		} else {
			data = append(data, payload)
		}
	}
	return data, trailers, tr, len(b)
}

// legacyMsg is a message of the older generated kind.
type legacyMsg struct {
	Name string `protobuf:"bytes,1,opt,name=name,proto3" json:"name,omitempty"`
}

func (m *legacyMsg) Reset()         { *m = legacyMsg{} }
func (m *legacyMsg) String() string { return "legacyMsg{" + m.Name + "}" }
func (*legacyMsg) ProtoMessage()    {}

// slowWriter is a ResponseWriter for a slow client: its first Write announces itself and waits before it copies.
type slowWriter struct {
	hdr     http.Header
	code    int
	buf     bytes.Buffer
	entered chan struct{}
	goOn    chan struct{}
	once    sync.Once
}

func (w *slowWriter) Header() http.Header { return w.hdr }
func (w *slowWriter) WriteHeader(c int)   { w.code = c }
func (w *slowWriter) Write(p []byte) (int, error) {
	w.once.Do(func() {
		close(w.entered)
		<-w.goOn
	})
	return w.buf.Write(p)
}
