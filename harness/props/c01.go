package props

import (
	"bytes"
	"context"
	"fmt"
	"github.com/fullstorydev/grpchan/httpgrpc"
	"github.com/fullstorydev/grpchan/inprocgrpc"
	"google.golang.org/grpc/encoding"
	grpcproto "google.golang.org/grpc/encoding/proto"
	"google.golang.org/grpc/metadata"
	"google.golang.org/protobuf/proto"
	"io"
	"math/rand"
	"net/http"
	"strings"
	"sync"
	"time"

	tpb "github.com/fullstorydev/grpchan/grpchantesting"

	"verifharness/core"
)

func init() {
	core.Register("C01", checkC01)
	core.RegisterRace("C01", raceC01)
}

const watchdog = 40 * time.Second

// genDeliveryScript makes a well-formed (deadlock-free on the standard
// transport) script of the given kind. half = HTTP half-duplex rules.
func genDeliveryScript(r *rand.Rand, kind Kind, half bool, allowBig bool) *Script {
	tag := fmt.Sprintf("%016x", r.Uint64())
	s := &Script{Kind: kind}
	nReq, nResp := 1, 1
	if kind.ClientStreams() {
		nReq = pick(r, 0, 1, 1, 2, 3, 5, 8, 17, 50)
	}
	if kind.ServerStreams() {
		nResp = pick(r, 0, 1, 1, 2, 3, 5, 8, 17, 50)
	}
	big := allowBig
	mk := func(dir string, i int) *tpb.Message {
		m := genMsg(r, fmt.Sprintf("%s/%s/%d", tag, dir, i), big)
		if len(m.Payload) > 60000 {
			big = false // at most one big message per direction keeps runs fast
		}
		return m
	}
	if kind == Unary {
		s.UnaryReq = mk("c", 0)
		s.Resp = mk("s", 0)
		if r.Intn(3) == 0 {
			// the caller hands in a reply object that still holds an earlier reply; the new reply is often empty
			s.ReuseDest = true
			if r.Intn(2) == 0 {
				s.Resp = &tpb.Message{}
			}
		}
		return s
	}
	for i := 0; i < nReq; i++ {
		m := mk("c", i)
		s.Sender = append(s.Sender, Op{Op: "send", Msg: m, MsgD: msgDesc(m)})
	}
	s.Sender = append(s.Sender, Op{Op: "close"})
	if kind.ServerStreams() {
		s.Receiver = []Op{{Op: "recvall"}}
	} else {
		s.Receiver = []Op{{Op: "recv"}}
	}
	switch r.Intn(6) {
	case 0:
		// ask for the headers first, as applications often do
		s.Receiver = append([]Op{{Op: "header"}}, s.Receiver...)
	case 1:
		// several askers (an interceptor and the application), also between receives
		s.Receiver = append([]Op{{Op: "header"}, {Op: "header"}}, s.Receiver...)
		if kind.ServerStreams() {
			s.Receiver = []Op{{Op: "header"}, {Op: "header"}, {Op: "recv"}, {Op: "header"}, {Op: "recvall"}}
		}
	}
	s.MutateAfterSend = r.Intn(2) == 0
	s.ReuseDest = r.Intn(3) == 0
	s.RecvAfterSend = half || r.Intn(3) == 0
	var sends []Op
	big = allowBig
	for i := 0; i < nResp; i++ {
		m := mk("s", i)
		sends = append(sends, Op{Op: "send", Msg: m, MsgD: msgDesc(m)})
	}
	switch {
	case !kind.ClientStreams():
		s.Handler = append([]Op{{Op: "recv"}}, sends...)
	case half || kind == ClientStream || r.Intn(2) == 0:
		// consume everything first
		s.Handler = append([]Op{{Op: "recvall"}}, sends...)
		if !half && r.Intn(4) == 0 && nReq > 1 {
			// stop receiving early (prefix rule applies)
			k := r.Intn(nReq)
			s.Handler = nil
			for i := 0; i < k; i++ {
				s.Handler = append(s.Handler, Op{Op: "recv"})
			}
			s.Handler = append(s.Handler, sends...)
			s.RecvAfterSend = false // sender may block on backpressure until the handler is done
		}
	default:
		// full duplex: random interleaving of receives and sends, then drain
		ri, si := 0, 0
		for ri < nReq || si < len(sends) {
			if si >= len(sends) || (ri < nReq && r.Intn(2) == 0) {
				s.Handler = append(s.Handler, Op{Op: "recv"})
				ri++
			} else {
				s.Handler = append(s.Handler, sends[si])
				si++
			}
		}
		s.Handler = append(s.Handler, Op{Op: "recvall"})
		s.RecvAfterSend = false
	}
	return s
}

// deliveryOracle checks the delivery property on one finished run and
// returns a list of problems (empty = held).
func deliveryOracle(run *Run) []string {
	var probs []string
	evs := run.Events()
	var cSent, hSent []*tpb.Message // attempted, in call order
	var cSendOK, hSendOK int
	var cRecv, hRecv []*tpb.Message
	cDrained, hDrained := false, false
	for _, e := range evs {
		switch {
		case e.Pan != "":
			probs = append(probs, "panic in "+e.Who+"."+e.Op+": "+e.Pan)
		case (e.Who == "cs" || e.Who == "cr") && e.Op == "send" && e.Call:
			cSent = append(cSent, e.Msg)
		case (e.Who == "cs" || e.Who == "cr") && e.Op == "send" && !e.Call && e.Err == nil:
			cSendOK++
		case e.Who == "cs" && e.Op == "invoke" && e.Call:
			cSent = append(cSent, e.Msg)
			cSendOK++
		case e.Who == "cs" && e.Op == "invoke" && !e.Call && e.Err == nil:
			cRecv = append(cRecv, e.Msg)
			cDrained = true
		case e.Who == "h" && e.Op == "send" && e.Call:
			hSent = append(hSent, e.Msg)
		case e.Who == "h" && e.Op == "send" && !e.Call && e.Err == nil:
			hSendOK++
		case e.Who == "h" && e.Op == "return" && run.S.Kind == Unary && e.Err == nil:
			hSent = append(hSent, e.Msg)
			hSendOK++
		case e.Who == "h" && e.Op == "recv" && !e.Call:
			if e.Err == nil {
				hRecv = append(hRecv, e.Msg)
				if run.S.Kind == Unary || run.S.Kind == ServerStream {
					hDrained = true
				}
			} else if e.Err == io.EOF {
				hDrained = true
			}
		case (e.Who == "cs" || e.Who == "cr") && e.Op == "recv" && !e.Call:
			if e.Err == nil {
				cRecv = append(cRecv, e.Msg)
				if !run.S.Kind.ServerStreams() {
					cDrained = true
				}
			} else if e.Err == io.EOF {
				cDrained = true
			}
		}
	}
	// prefix + equality, both directions
	for i, m := range cRecv {
		if i >= len(hSent) {
			probs = append(probs, fmt.Sprintf("client received message #%d (%s) but the handler attempted only %d sends", i, msgDesc(m), len(hSent)))
			break
		}
		if !sameMsg(m, hSent[i]) {
			probs = append(probs, fmt.Sprintf("client received #%d = {%s}, handler sent #%d = {%s}", i, msgDesc(m), i, msgDesc(hSent[i])))
			break
		}
	}
	for i, m := range hRecv {
		if i >= len(cSent) {
			probs = append(probs, fmt.Sprintf("handler received message #%d (%s) but the client attempted only %d sends", i, msgDesc(m), len(cSent)))
			break
		}
		if !sameMsg(m, cSent[i]) {
			probs = append(probs, fmt.Sprintf("handler received #%d = {%s}, client sent #%d = {%s}", i, msgDesc(m), i, msgDesc(cSent[i])))
			break
		}
	}
	// equality at successful end
	herr, returned := run.HandlerReturn()
	out := run.ClientOutcome()
	if returned && herr == nil && out.Seen && out.OK {
		if cDrained && len(cRecv) != hSendOK {
			probs = append(probs, fmt.Sprintf("call succeeded; client drained the stream and holds %d messages, handler completed %d sends", len(cRecv), hSendOK))
		}
		if (run.S.Kind == Unary || run.S.Kind == ServerStream) && len(cSent) > 1 {
			hDrained = false // a raw client sent more than the single request such a method takes
			for _, e := range evs {
				if e.Who == "h" && e.Op == "recv" && !e.Call && e.Err == io.EOF {
					hDrained = true
				}
			}
		}
		if hDrained && len(hRecv) != cSendOK {
			probs = append(probs, fmt.Sprintf("call succeeded; handler drained the stream and holds %d messages, client completed %d sends", len(hRecv), cSendOK))
		}
	}
	return probs
}

func witness(run *Run) map[string]any {
	return map[string]any{"carrier": run.Carrier, "script": run.S, "shape": run.S.Shape(), "events": run.Events()}
}

// execScript runs sc on c with the watchdog; on a hang it cancels and
// releases everything so that the process can go on.
func execScript(c *Carrier, sc *Script, prep func(*Run)) (*Run, bool, string) {
	run := c.Svc.NewRun(sc, c.Name)
	if prep != nil {
		prep(run)
	}
	ok, dump := run.Exec(c.CC, nil, watchdog)
	if !ok {
		// slow, or parked for good? (sampled before anything is cancelled)
		done := make(chan struct{})
		_, run.Stuck, _ = waitDoneOrStuck(done, 10*time.Second)
		run.Cancel()
		run.ReleaseAll()
	} else {
		run.Cancel()
	}
	c.Svc.Forget(run)
	return run, ok, dump
}

// reachProblem: a script that reaches its handler over the standard transport must reach it on every carrier;
// a call that fails before any handler ran leaves the other oracles nothing to judge and must not pass for that.
func reachProblem(cs *carrierSet, c *Carrier, sc *Script, run *Run) string {
	if run.hStarted.Load() > 0 {
		return ""
	}
	out := run.ClientOutcome()
	if !out.Seen || out.OK {
		return ""
	}
	ref, ok, _ := execScript(cs.ref, sc, nil)
	if !ok || ref.hStarted.Load() == 0 {
		return ""
	}
	return fmt.Sprintf("the call failed (%v) without ever reaching the handler; over the standard transport the same script reaches it", out.Err)
}

// hangVerdict judges a run that hit the watchdog: parked for good on a script the standard transport completes
// is a violation (nothing was delivered, no status ever arrived); anything else stays inconclusive.
func hangVerdict(e *core.Env, prop string, cs *carrierSet, c *Carrier, sc *Script, run *Run, dump string) {
	// (only over HTTP, where scripts are half-duplex and so do not depend on how much a stream buffers; whether
	// in-process operations terminate is judged by C05, whose programs know which waits are the script's own)
	if run.Stuck && c.HTTP {
		if _, ok, _ := execScript(cs.ref, sc, nil); ok {
			w := witness(run)
			w["goroutines"] = trunc(dump, 20000)
			e.Violate(fmt.Sprintf("%s/%s/never-completes", c.Name, kindClass(sc.Kind)), fmt.Sprintf("the call never completed: client and server goroutines are parked for good (script %s completes over the standard transport)", sc.Shape()), w)
			return
		}
	}
	e.Inconclusive("%s %s %s: run did not finish within the watchdog", prop, c.Name, sc.Shape())
}

type carrierSet struct {
	ref  *Carrier
	list []*Carrier
}

func stdCarriers() *carrierSet {
	cs := &carrierSet{}
	cs.ref = NewRef(&Service{}, carrierOpt{})
	cs.list = []*Carrier{
		NewInproc(&Service{}, carrierOpt{}),
		NewHTTPServer(&Service{}, carrierOpt{}),
		NewHTTPMux(&Service{}, carrierOpt{basePath: "/rpc/v1/"}),
	}
	return cs
}

func (cs *carrierSet) Close() {
	cs.ref.Close()
	for _, c := range cs.list {
		c.Close()
	}
}

func checkC01(e *core.Env) {
	curEnv = e
	e.SetRule("seeded scripts (kind, 0..50 messages per direction, hostile message shapes/sizes, handler receive/send interleavings) run on in-process, httpgrpc.Server and HandleServices carriers plus concurrent batches on one channel; the library's schedule points yield or pause at random (seeded); a sixth of the sequential scripts end with an error status (prefix rule), a third of the scripts receive into one re-used message value; in-process unary calls that return on cancellation before the server side looked at the request, after which the caller overwrites it; distinct = distinct (carrier, script shape, size class) that exchanged >=1 message; each receive is compared with the sender's k-th attempted message (proto.Equal + deterministic bytes), counts compared at successful end; scripts on which the standard transport itself fails the oracle are calibrated out")
	e.Assume("HTTP bidi scripts are half-duplex (client closes send before the handler replies)")
	e.Assume("equality of sequences is required only when the receiver drained to EOF")
	cs := stdCarriers()
	defer cs.Close()

	runOne := func(c *Carrier, sc *Script) {
		var plan *hookPlan
		run, ok, dump := execScript(c, sc, func(run *Run) {
			plan = yieldingPlan(run, sc)
			if sc.ReuseDest && sc.Kind == Unary {
				// a caller that re-uses its reply object: it still holds the previous reply
				run.Dest = func() *tpb.Message { return fullMessage(rand.New(rand.NewSource(1))) }
			}
		})
		hookPlans.Delete(run.ID)
		if !ok {
			hangVerdict(e, "C01", cs, c, sc, run, dump)
			return
		}
		e.Distinct("hook_hit_sequences", c.Name+"|"+strings.Join(plan.Hits(), ","))
		if p := reachProblem(cs, c, sc, run); p != "" {
			e.Violate(fmt.Sprintf("delivery/%s/%s/never-reached-handler", c.Name, sc.Kind), p, witness(run))
		}
		nmsg := len(run.Rets("h", "recv")) + len(run.Rets("cr", "recv")) + len(run.Rets("cs", "invoke"))
		e.Eval(c.Name+"|"+sc.Shape(), nmsg > 0)
		e.Count("events", int64(len(run.Events())))
		e.Count("runs."+c.Name, 1)
		if probs := deliveryOracle(run); len(probs) > 0 {
			e.Violate(fmt.Sprintf("delivery/%s/%s", c.Name, sc.Kind), probs[0], witness(run))
		} else if p := spuriousReceiveError(run); p != "" {
			e.Violate(fmt.Sprintf("delivery/%s/%s/receive-failed", c.Name, sc.Kind), p, witness(run))
		}
	}

	n := e.N(500, 4000)
	e.Cases("seq", n, func(i int, r *rand.Rand) {
		kind := Kind(i % 4)
		for ci, c := range cs.list {
			rr := rand.New(rand.NewSource(r.Int63() + int64(ci)))
			sc := genDeliveryScript(rr, kind, c.HTTP, true)
			if rr.Intn(6) == 0 {
				// a call that ends with an error status: what arrived before is still an intact prefix
				sc.Ret = Ret{How: "status", Code: 10, Msg: "ends in failure"}
			}
			if rr.Intn(8) == 0 {
				// a caller with a distant deadline: the call is otherwise the same
				sc.CallTimeout = pick(rr, time.Hour, 30*time.Hour)
			}
			if c.HTTP && sc.Kind.ClientStreams() && rr.Intn(5) == 0 {
				// a handler that sends its headers first and reads its requests afterwards
				sc.Handler = append([]Op{{Op: "sendhdr", MD: metadata.MD{"early": {"headers"}}}}, sc.Handler...)
			}
			e.Note("%s %s", c.Name, sc.Shape())
			// calibration on the standard transport
			ref, ok, _ := execScript(cs.ref, sc, nil)
			if !ok || len(deliveryOracle(ref)) > 0 {
				e.Count("calibrated_out", 1)
				continue
			}
			runOne(c, sc)
			if i < 3 && ci == 0 {
				e.Sample(map[string]any{"carrier": c.Name, "script": sc})
			}
		}
	})

	// the same scripts over less common configurations: an in-process channel whose messages are copied by a
	// codec (every message crosses as bytes; empty messages as zero bytes), and HTTP carriers whose bodies arrive
	// a few bytes per Read in both directions (frames and their size prefaces are split across reads), or whose requests are sent with an undeclared length
	variants := []*Carrier{
		NewInproc(&Service{}, carrierOpt{cloner: inprocgrpc.CodecCloner(encoding.GetCodec(grpcproto.Name))}),
		NewHTTPServer(&Service{}, carrierOpt{}).InPieces(3),
		NewHTTPMux(&Service{}, carrierOpt{basePath: "/p/"}).InPieces(1),
		NewHTTPServer(&Service{}, carrierOpt{}).InPieces(7),
		NewHTTPServer(&Service{}, carrierOpt{}).Chunked(),
		NewInproc(&Service{}, carrierOpt{cloner: inprocgrpc.CloneFunc(func(in interface{}) (interface{}, error) { return proto.Clone(in.(proto.Message)), nil })}),
	}
	variants[len(variants)-1].Name = "inproc-clonefunc"
	variants[0].Name = "inproc-codec"
	for _, c := range variants {
		defer c.Close()
	}
	e.Cases("seq-variants", e.N(160, 1600), func(i int, r *rand.Rand) {
		kind := Kind(i % 4)
		c := variants[(i/4)%len(variants)]
		sc := genDeliveryScript(r, kind, c.HTTP, false)
		if r.Intn(2) == 0 {
			// receivers that re-use one destination, with empty messages among the others
			sc.ReuseDest = true
			for j := range sc.Sender {
				if sc.Sender[j].Op == "send" && r.Intn(3) == 0 {
					sc.Sender[j].Msg = &tpb.Message{}
					sc.Sender[j].MsgD = msgDesc(sc.Sender[j].Msg)
				}
			}
			for j := range sc.Handler {
				if sc.Handler[j].Op == "send" && r.Intn(3) == 0 {
					sc.Handler[j].Msg = &tpb.Message{}
					sc.Handler[j].MsgD = msgDesc(sc.Handler[j].Msg)
				}
			}
			if kind == Unary && r.Intn(2) == 0 {
				sc.UnaryReq = &tpb.Message{}
			}
		}
		e.Note("%s %s", c.Name, sc.Shape())
		ref, ok, _ := execScript(cs.ref, sc, nil)
		if !ok || len(deliveryOracle(ref)) > 0 {
			e.Count("calibrated_out", 1)
			return
		}
		runOne(c, sc)
	})

	// a request stream that breaks off right after the size preface of its second message, the connection ending
	// cleanly there: the handler is not told that the client finished (the end of a stream that lost messages
	// is an error, not the clean end that means "you have everything the client sent")
	cutC := NewHTTPServer(&Service{}, carrierOpt{}).CutAfterSecondPreface()
	defer cutC.Close()
	e.Cases("request-cut-after-preface", e.N(12, 100), func(i int, r *rand.Rand) {
		kind := pick(r, ClientStream, Bidi)
		sc := &Script{Kind: kind, RecvAfterSend: true}
		n := 2 + r.Intn(3)
		for k := 0; k < n; k++ {
			m := genMsg(r, fmt.Sprintf("cut-%d-%d", i, k), false)
			if k < 2 && len(m.Payload) == 0 {
				m.Payload = []byte("x") // (the first two frames are not empty: the cut is inside the second one)
			}
			sc.Sender = append(sc.Sender, Op{Op: "send", Msg: m, MsgD: msgDesc(m)})
		}
		sc.Sender = append(sc.Sender, Op{Op: "close"})
		sc.Handler = []Op{{Op: "recvall"}, {Op: "send", Msg: &tpb.Message{Payload: []byte("reply")}}}
		sc.Receiver = []Op{{Op: "recvall"}}
		run, ok, _ := execScript(cutC, sc, nil)
		if !ok {
			e.Inconclusive("C01 request-cut-after-preface: watchdog")
			return
		}
		e.Eval("request-cut-after-preface|"+kind.String(), true)
		got, cleanEnd := 0, false
		for _, ev := range run.Rets("h", "recv") {
			if ev.Err == nil {
				got++
			} else if ev.Err == io.EOF {
				cleanEnd = true
			}
		}
		if cleanEnd && got < n {
			e.Violate("delivery/http-server/"+kind.String()+"/request-cut/clean-end-with-messages-lost", fmt.Sprintf("the client sent %d messages; the request body broke off right after the size preface of the second one; the handler received %d and was then told the client had finished (io.EOF)", n, got), witness(run))
		}
	})

	// concurrent RPCs on one channel
	nb := e.N(24, 160)
	e.Cases("concurrent", nb, func(i int, r *rand.Rand) {
		c := cs.list[i%len(cs.list)]
		k := pick(r, 8, 16, 32, 64)
		scripts := make([]*Script, k)
		for j := range scripts {
			scripts[j] = genDeliveryScript(rand.New(rand.NewSource(r.Int63())), Kind(r.Intn(4)), c.HTTP, j%16 == 0)
		}
		concurrentBatch(e, c, scripts)
	})

	// unary replies that break off in transit must never be delivered as (partial) messages
	unaryCutPhase(e, "delivery/http", e.N(6, 60))

	// a unary call that returns on cancellation before the server side has looked at the request: the caller
	// may overwrite its message at once; whatever the handler then receives is the message that was sent
	installHooks()
	e.Cases("unary-early-return", e.N(60, 600), func(i int, r *rand.Rand) {
		var inp *Carrier
		for _, c := range cs.list {
			if c.Inproc {
				inp = c
			}
		}
		seen, orig, placed := earlyReturnUnary(e, "C01", inp, "inproc", r)
		if !placed {
			return
		}
		e.Eval("unary-early-return", true)
		e.Count("early_returns_placed", 1)
		if seen != nil && !sameMsg(seen, orig) {
			e.Violate("delivery/inproc/unary/early-return-altered", fmt.Sprintf("the call had returned (cancelled) and the caller re-used its request; the handler then received a message that was never sent: %s (sent: %s)", msgDesc(seen), msgDesc(orig)), map[string]any{"sent": msgDesc(orig), "handler_received": msgDesc(seen)})
		}
	})

	// a unary call over HTTP that returns on cancellation after the reply's headers and before its body: when the
	// body arrives later, nothing is written into the reply object, which belongs to the caller again
	e.Cases("unary-late-reply", e.N(30, 300), func(i int, r *rand.Rand) {
		reply := genMsg(r, fmt.Sprintf("late-%d", i), false)
		reply.Count = 4242
		full, _ := proto.Marshal(reply)
		gate := make(chan struct{})
		closed := make(chan struct{})
		body := &lateBody{data: full, gate: gate, closed: closed}
		arrived := make(chan struct{})
		ch := &httpgrpc.Channel{BaseURL: mustURL("http://late.test/"), Transport: rtFunc(func(rq *http.Request) (*http.Response, error) {
			h := http.Header{}
			h.Set("Content-Type", httpgrpc.UnaryRpcContentType_V1)
			close(arrived)
			return &http.Response{StatusCode: 200, Header: h, Body: body, ContentLength: int64(len(full)), Request: rq, ProtoMajor: 1, ProtoMinor: 1}, nil
		})}
		ctx, cancel := context.WithCancel(context.Background())
		defer cancel()
		resp := new(tpb.Message)
		res := make(chan error, 1)
		go func() { res <- ch.Invoke(ctx, Unary.Method(), &tpb.Message{}, resp) }()
		select {
		case <-arrived:
		case <-time.After(watchdog):
			e.Inconclusive("C01 unary-late-reply: round trip not reached")
			close(gate)
			return
		}
		time.Sleep(time.Duration(r.Intn(300)) * time.Microsecond)
		cancel()
		var ierr error
		select {
		case ierr = <-res:
		case <-time.After(watchdog):
			e.Inconclusive("C01 unary-late-reply: Invoke did not return after cancel")
			close(gate)
			return
		}
		// the caller re-uses its reply object (say, for its next call)
		resp.Reset()
		resp.Payload = []byte("reply of the caller's next call")
		close(gate)
		select {
		case <-closed:
		case <-time.After(2 * time.Second):
		}
		time.Sleep(2 * time.Millisecond)
		e.Eval("unary-late-reply", true)
		if ierr == nil {
			return // the call completed before the cancellation took effect
		}
		if string(resp.Payload) != "reply of the caller's next call" || resp.Count != 0 {
			e.Violate("delivery/http/unary/late-reply-written", fmt.Sprintf("Invoke had returned %v; when the reply body arrived afterwards it was decoded into the caller's reply object, which now reads {%s}", ierr, msgDesc(resp)), nil)
		}
	})

	// a unary reply whose first field ends exactly at the library's per-message limit: nothing after it is lost
	e.Cases("big-unary-reply", e.N(1, 2), func(i int, r *rand.Rand) {
		limit := int(perMessageLimit)
		m := &tpb.Message{Payload: make([]byte, limit-5), Count: 77, Headers: map[string][]byte{"after": []byte("the limit")}}
		body, _ := proto.MarshalOptions{Deterministic: true}.Marshal(m)
		ch := &httpgrpc.Channel{BaseURL: mustURL("http://big.test/"), Transport: rtFunc(func(rq *http.Request) (*http.Response, error) {
			h := http.Header{}
			h.Set("Content-Type", httpgrpc.UnaryRpcContentType_V1)
			return &http.Response{StatusCode: 200, Header: h, Body: io.NopCloser(bytes.NewReader(body)), ContentLength: int64(len(body)), Request: rq, ProtoMajor: 1, ProtoMinor: 1}, nil
		})}
		out := new(tpb.Message)
		var err error
		pan := guard(func() { err = ch.Invoke(context.Background(), Unary.Method(), &tpb.Message{}, out) })
		e.Eval("big-unary-reply", true)
		w := map[string]any{"reply_len": len(body), "err": fmt.Sprint(err)}
		if pan != "" {
			e.Violate("delivery/http/unary/big-reply/panic", trunc(pan, 400), w)
		} else if err == nil && (out.Count != 77 || string(out.Headers["after"]) != "the limit" || len(out.Payload) != limit-5) {
			e.Violate("delivery/http/unary/big-reply/altered", fmt.Sprintf("a %d-byte unary reply was accepted but the caller got count=%d headers=%d payload=%d bytes", len(body), out.Count, len(out.Headers), len(out.Payload)), w)
		}
	})

	// several large messages in a row (the generated scripts above carry at most one per direction): each frame
	// is still being decoded by the receiver while the transport already reads the next one
	e.Cases("consecutive-large", e.N(24, 120), func(i int, r *rand.Rand) {
		kind := Kind(1 + i%3)
		for _, c := range cs.list {
			sc := genDeliveryScript(r, kind, c.HTTP, false)
			sc.MutateAfterSend = false
			if kind.ServerStreams() {
				// at least four replies, sent back to back at the end
				for n := 0; n < 8; n++ {
					sc.Handler = append(sc.Handler, Op{Op: "send"})
				}
			}
			k := 0
			enlarge := func(ops []Op) {
				for j := range ops {
					if ops[j].Op == "send" && k < 16 {
						sz := pick(r, 64<<10-1, 64<<10, 64<<10+1, 100000, 200000, 300000, 1<<20) + r.Intn(9)
						m := &tpb.Message{Payload: randBytes(r, sz), Count: int32(k)}
						ops[j].Msg, ops[j].MsgD = m, msgDesc(m)
						k++
					}
				}
			}
			enlarge(sc.Sender)
			k = 0
			enlarge(sc.Handler)
			e.Count("large_frame_scripts", 1)
			runOne(c, sc)
		}
	})

	// a garbage collection while the caller is blocked in its last receive (nothing refers to the stream after
	// it, as in generated CloseAndRecv code): everything the handler then sends is still delivered
	e.Cases("gc-during-receive", e.N(9, 60), func(i int, r *rand.Rand) {
		c := cs.list[i%len(cs.list)]
		kind := pick(r, ClientStream, ServerStream, Bidi)
		sc := genDeliveryScript(r, kind, true, false)
		run, got, err, ok := gcSchedule(e, "C01", c, sc)
		if !ok {
			return
		}
		e.Eval(fmt.Sprintf("gc|%s|%s", c.Name, kind), true)
		e.Count("gc_schedules", 1)
		var sent []*tpb.Message
		for _, o := range sc.Handler {
			if o.Op == "send" {
				sent = append(sent, o.Msg)
			}
		}
		prob := ""
		switch {
		case err != nil:
			prob = fmt.Sprintf("the final receive failed with %v after %d of %d messages", err, len(got), len(sent))
		case len(got) != len(sent):
			prob = fmt.Sprintf("the client drained the stream and holds %d messages, the handler sent %d", len(got), len(sent))
		default:
			for j := range got {
				if !sameMsg(got[j], sent[j]) {
					prob = fmt.Sprintf("client received #%d = {%s}, handler sent {%s}", j, msgDesc(got[j]), msgDesc(sent[j]))
					break
				}
			}
		}
		if prob != "" {
			e.Violate(fmt.Sprintf("delivery/%s/%s/gc-during-receive", c.Name, kind), "a garbage collection ran while the client was blocked in its last receive; the handler then sent its messages and returned nil: "+prob, witness(run))
		}
	})

	if e.Thorough() {
		// very large payloads
		e.Cases("huge", 6, func(i int, r *rand.Rand) {
			for _, c := range cs.list {
				kind := Kind(i % 4)
				sc := genDeliveryScript(r, kind, c.HTTP, false)
				huge := &tpb.Message{Payload: randBytes(r, (16<<20)+r.Intn(16<<20))}
				if kind == Unary {
					sc.UnaryReq, sc.Resp = huge, huge
				} else {
					for j := range sc.Sender {
						if sc.Sender[j].Op == "send" {
							sc.Sender[j].Msg = huge
							break
						}
					}
					for j := range sc.Handler {
						if sc.Handler[j].Op == "send" {
							sc.Handler[j].Msg = huge
							break
						}
					}
				}
				runOne(c, sc)
			}
		})
	}
}

func concurrentBatch(e *core.Env, c *Carrier, scripts []*Script) {
	var wg sync.WaitGroup
	runs := make([]*Run, len(scripts))
	oks := make([]bool, len(scripts))
	for j, sc := range scripts {
		wg.Add(1)
		go func(j int, sc *Script) {
			defer wg.Done()
			runs[j], oks[j], _ = execScript(c, sc, func(run *Run) { yieldingPlan(run, sc) })
			hookPlans.Delete(runs[j].ID)
		}(j, sc)
	}
	wg.Wait()
	sig := c.Name + "|batch"
	for j, run := range runs {
		if !oks[j] {
			e.Inconclusive("C01 concurrent %s %s: run did not finish within the watchdog", c.Name, run.S.Shape())
			continue
		}
		sig += "|" + run.S.Kind.String()
		e.Count("events", int64(len(run.Events())))
		e.Count("concurrent_rpcs", 1)
		if probs := deliveryOracle(run); len(probs) > 0 {
			e.Violate(fmt.Sprintf("delivery-concurrent/%s/%s", c.Name, run.S.Kind), probs[0], witness(run))
		}
	}
	e.Eval(sig, true)
}

// raceC01: the concurrent batches again, inside the race-detector build.
func raceC01(e *core.Env) {
	cs := stdCarriers()
	defer cs.Close()
	e.Cases("race-concurrent", 30, func(i int, r *rand.Rand) {
		c := cs.list[i%len(cs.list)]
		scripts := make([]*Script, 16)
		for j := range scripts {
			scripts[j] = genDeliveryScript(rand.New(rand.NewSource(r.Int63())), Kind(r.Intn(4)), c.HTTP, false)
		}
		concurrentBatch(e, c, scripts)
	})
}

// yieldingPlan makes the library's schedule points of one run yield or pause at random (seeded by the script),
// so that the same script is seen under different interleavings of client, server and transport goroutines.
func yieldingPlan(run *Run, sc *Script) *hookPlan {
	installHooks()
	plan := newHookPlan()
	plan.yield = rand.New(rand.NewSource(int64(hash64str(run.ID + sc.Shape()))))
	hookPlans.Store(run.ID, plan)
	return plan
}

func hash64str(s string) uint64 {
	var h uint64 = 14695981039346656037
	for i := 0; i < len(s); i++ {
		h ^= uint64(s[i])
		h *= 1099511628211
	}
	return h
}

// lateBody is a reply body that arrives only when its gate opens.
type lateBody struct {
	data   []byte
	gate   chan struct{}
	closed chan struct{}
	once   sync.Once
}

func (b *lateBody) Read(p []byte) (int, error) {
	<-b.gate
	if len(b.data) == 0 {
		return 0, io.EOF
	}
	n := copy(p, b.data)
	b.data = b.data[n:]
	return n, nil
}
func (b *lateBody) Close() error {
	b.once.Do(func() { close(b.closed) })
	return nil
}

// spuriousReceiveError: in a script where nobody cancels and the handler returns nil, the handler's receives end
// with io.EOF or not at all; a transport error in their place means messages the client sent (its sends succeeded)
// were lost on the way. (The standard transport carries these scripts without such an error: calibration.)
func spuriousReceiveError(run *Run) string {
	if run.S.Ret.How != "" && run.S.Ret.How != "ok" {
		return ""
	}
	for _, ev := range run.Events() {
		if ev.Op == "cancel" {
			return ""
		}
	}
	for _, ev := range run.Rets("h", "recv") {
		if ev.Err != nil && ev.Err != io.EOF {
			return fmt.Sprintf("nothing was cancelled and the client's sends succeeded, yet a receive of the handler failed with: %v", ev.Err)
		}
	}
	return ""
}
