package props

import (
	"fmt"
	"math/rand"
	"strings"
	"unicode/utf8"

	tpb "github.com/fullstorydev/grpchan/grpchantesting"
	"github.com/fullstorydev/grpchan/httpgrpc"
	"google.golang.org/grpc/metadata"
	"google.golang.org/protobuf/encoding/protowire"
	"google.golang.org/protobuf/proto"
	"google.golang.org/protobuf/types/known/anypb"
	"google.golang.org/protobuf/types/known/durationpb"
	"google.golang.org/protobuf/types/known/structpb"
	"google.golang.org/protobuf/types/known/timestamppb"
	"google.golang.org/protobuf/types/known/wrapperspb"
)

func randBytes(r *rand.Rand, n int) []byte {
	b := make([]byte, n)
	r.Read(b)
	return b
}

func pick[T any](r *rand.Rand, xs ...T) T { return xs[r.Intn(len(xs))] }

// genAny makes an Any of several kinds, including nested Any and an unknown
// type URL.
func genAny(r *rand.Rand, depth int) *anypb.Any {
	switch r.Intn(7) {
	case 0:
		a, _ := anypb.New(wrapperspb.String(fmt.Sprintf("s%d", r.Intn(1000))))
		return a
	case 1:
		a, _ := anypb.New(&tpb.Message{Payload: randBytes(r, r.Intn(40)), Count: int32(r.Intn(9))})
		return a
	case 2:
		a, _ := anypb.New(timestamppb.New(timeUnix(r)))
		return a
	case 3:
		return &anypb.Any{TypeUrl: "type.example.com/unknown.Type" + fmt.Sprint(r.Intn(9)), Value: randBytes(r, r.Intn(30))}
	case 4:
		if depth < 2 {
			a, _ := anypb.New(genAny(r, depth+1))
			return a
		}
		fallthrough
	case 5:
		s, _ := structpb.NewStruct(map[string]any{"a": float64(r.Intn(100)), "b": []any{"x", true, nil}, "c": map[string]any{"d": "e"}})
		a, _ := anypb.New(s)
		return a
	default:
		a, _ := anypb.New(durationpb.New(1234567))
		return a
	}
}

// payloadSizes are the hostile sizes the design names.
var smallSizes = []int{0, 0, 1, 2, 5, 11, 127, 128, 129, 255, 256, 1000, 4095, 4096, 4097}
var bigSizes = []int{65535, 65536, 65537, 262143, 262144, 262145, 1 << 20, 3<<20 + 7}

// genMsg makes a test message with a tag (rpc id, direction, seq) embedded so
// that cross-talk is detectable. class selects the corner: "" random.
func genMsg(r *rand.Rand, tag string, allowBig bool) *tpb.Message {
	m := &tpb.Message{}
	c := r.Intn(20)
	switch {
	case c == 0:
		// completely empty: zero-length encoding
		return m
	case c == 1:
		// only default-valued fields set explicitly
		m.Payload = []byte{}
		m.Headers = map[string][]byte{}
		return m
	}
	sz := smallSizes[r.Intn(len(smallSizes))]
	if allowBig && r.Intn(12) == 0 {
		sz = bigSizes[r.Intn(len(bigSizes))]
	}
	p := make([]byte, 0, sz+len(tag)+1)
	p = append(p, tag...)
	p = append(p, '|')
	for len(p) < sz {
		p = append(p, byte(r.Intn(256)))
	}
	m.Payload = p
	if r.Intn(2) == 0 {
		m.Count = int32(r.Uint32())
	}
	if r.Intn(3) == 0 {
		m.Code = int32(r.Intn(20)) - 2
	}
	if r.Intn(4) == 0 {
		m.DelayMillis = -int32(r.Intn(5))
	}
	if r.Intn(3) == 0 {
		m.Headers = map[string][]byte{}
		n := r.Intn(6)
		for i := 0; i < n; i++ {
			k := pick(r, "", "k", "key-"+fmt.Sprint(i), "UPPER", "dup", strings.Repeat("x", r.Intn(70)))
			var v []byte
			switch r.Intn(3) {
			case 0:
				v = []byte{}
			case 1:
				v = randBytes(r, r.Intn(20))
			default:
				v = nil
			}
			m.Headers[k] = v
		}
	}
	if r.Intn(5) == 0 {
		m.Trailers = map[string][]byte{}
		n := 1 + r.Intn(40)
		for i := 0; i < n; i++ {
			m.Trailers[fmt.Sprintf("t%03d", i)] = randBytes(r, r.Intn(8))
		}
	}
	if r.Intn(4) == 0 {
		n := 1 + r.Intn(3)
		for i := 0; i < n; i++ {
			m.ErrorDetails = append(m.ErrorDetails, genAny(r, 0))
		}
	}
	if r.Intn(6) == 0 {
		// unknown fields: field numbers 100.. with varint, bytes and fixed32
		var u []byte
		u = protowire.AppendTag(u, protowire.Number(100+r.Intn(50)), protowire.VarintType)
		u = protowire.AppendVarint(u, r.Uint64())
		u = protowire.AppendTag(u, protowire.Number(200+r.Intn(50)), protowire.BytesType)
		u = protowire.AppendBytes(u, randBytes(r, r.Intn(10)))
		u = protowire.AppendTag(u, 300, protowire.Fixed32Type)
		u = protowire.AppendFixed32(u, r.Uint32())
		m.ProtoReflect().SetUnknown(u)
	}
	return m
}

func detBytes(m proto.Message) []byte {
	b, _ := proto.MarshalOptions{Deterministic: true}.Marshal(m)
	return b
}

// sameMsg is the equality used by delivery oracles: proto.Equal plus equal
// deterministic encodings (catches unknown-field loss).
func sameMsg(a, b *tpb.Message) bool {
	if a == nil || b == nil {
		return a == b
	}
	return proto.Equal(a, b) && string(detBytes(a)) == string(detBytes(b))
}

// ---- metadata ----

const mdKeyChars = "abcdefghijklmnopqrstuvwxyz0123456789_.-"

var reservedMD = map[string]bool{
	"content-type": true, "content-length": true, "te": true, "connection": true, "host": true, "user-agent": true,
	"date": true, "accept-encoding": true, "keep-alive": true, "trailer": true, "transfer-encoding": true, "upgrade": true,
	"expect": true, "cookie": true, "authorization": true, "proxy-connection": true, "via": true, "allow": true,
	"x-content-type-options": true, "set-cookie": true, "vary": true, "accept": true, "range": true, "location": true,
	"www-authenticate": true, "if-modified-since": true, "if-none-match": true, "etag": true, "last-modified": true, "server": true,
}

func genMDKey(r *rand.Rand, bin bool) string {
	for {
		n := 1 + r.Intn(12)
		var b strings.Builder
		b.WriteByte("abcdefghijklmnopqrstuvwxyz"[r.Intn(26)])
		for i := 1; i < n; i++ {
			b.WriteByte(mdKeyChars[r.Intn(len(mdKeyChars))])
		}
		k := b.String()
		if strings.HasSuffix(k, "-bin") || strings.HasPrefix(k, "grpc-") || strings.HasPrefix(k, "x-grpc") || strings.HasPrefix(k, "x-verif") || reservedMD[k] ||
			strings.HasPrefix(k, "content-") || strings.HasPrefix(k, "sec-") || strings.HasPrefix(k, "proxy-") || strings.HasPrefix(k, "if-") || strings.HasPrefix(k, "accept") {
			continue
		}
		if bin {
			k += "-bin"
		}
		return k
	}
}

const asciiVal = " !\"#$%&'()*+,-./0123456789:;<=>?@ABCDEFGHIJKLMNOPQRSTUVWXYZ[\\]^_`abcdefghijklmnopqrstuvwxyz{|}~"

func genASCIIValue(r *rand.Rand) string {
	switch r.Intn(8) {
	case 0:
		return ""
	case 1:
		return pick(r, "a,b", "a, b", "%41", "100%", "a=b; c=d", "\"q\"", "x  y", "~", "a:b", "=?utf-8?b?", "%", "+", "a+b/c==", "-_-")
	}
	n := 1 + r.Intn(24)
	b := make([]byte, n)
	for i := range b {
		b[i] = asciiVal[r.Intn(len(asciiVal))]
	}
	// no leading/trailing blanks (undefined by the gRPC wire spec; HTTP strips them)
	if b[0] == ' ' {
		b[0] = 'a'
	}
	if b[n-1] == ' ' {
		b[n-1] = 'z'
	}
	return string(b)
}

func genBinValue(r *rand.Rand, utf8Only bool) string {
	if utf8Only {
		return pick(r, "", "a", "ab", "abc", "abcd", "abcde", "\x00", "\n", "\r\n", "é", "日本", "\x00\n\r\t", " lead", "trail ", "~~~?>>")
	}
	switch r.Intn(6) {
	case 0:
		return pick(r, "", "\x00", "\n", "\r", "\xff", "\xff\xfe\xfd", "\x00\x0a\x0d\xff", "\xfb\xff", "\xfb\xef\xbe")
	}
	return string(randBytes(r, r.Intn(20)))
}

// genMD makes application metadata inside the domain documented in DESIGN.md
// (lower-case keys, no reserved keys, ASCII values without outer blanks,
// arbitrary bytes for -bin). utf8Bin restricts -bin values to valid UTF-8.
func genMD(r *rand.Rand, maxKeys int, utf8Bin bool) metadata.MD {
	md := metadata.MD{}
	n := r.Intn(maxKeys + 1)
	for i := 0; i < n; i++ {
		bin := r.Intn(3) == 0
		k := genMDKey(r, bin)
		nv := 1
		if r.Intn(3) == 0 {
			nv = 2 + r.Intn(3)
		}
		for j := 0; j < nv; j++ {
			if bin {
				md[k] = append(md[k], genBinValue(r, utf8Bin))
			} else {
				md[k] = append(md[k], genASCIIValue(r))
			}
		}
	}
	return md
}

// mdContains reports whether got contains every key of want with exactly the
// same value list.
func mdContains(got, want metadata.MD) (bool, string) {
	for k, wv := range want {
		gv := got[k]
		if len(gv) != len(wv) {
			return false, fmt.Sprintf("key %q: got %q want %q", k, gv, wv)
		}
		for i := range wv {
			if gv[i] != wv[i] {
				return false, fmt.Sprintf("key %q: got %q want %q", k, gv, wv)
			}
		}
	}
	return true, ""
}

func mdMerge(dst metadata.MD, src metadata.MD) metadata.MD {
	if dst == nil {
		dst = metadata.MD{}
	}
	for k, v := range src {
		dst[k] = append(dst[k], v...)
	}
	return dst
}

// ---- status ----

var hostileStatusMsgs = []string{
	"", "plain error", ":", "a:b:c", "%", "%41", "100% done", "ünïcödé ✓", "日本語", "tab\there", "semi;colon, comma",
	"mid  double  blank", strings.Repeat("long ", 1600),
}

// msgs that HTTP/1.1 headers cannot carry faithfully (known finding F-C02-1)
var headerHostileMsgs = []string{" leading blank", "trailing blank ", "line\nfeed", "carriage\rreturn", "crlf\r\nInjected: yes", "nul\x00byte", "\t", " ", "\x01ctl", "del\x7f", "bell\x07mid"}

var invalidUTF8Msgs = []string{"bad\xffutf8", "\xc3\x28", "ok then \xe2\x82", "\xff\xfe\xfd"}

func normStatusMsg(s string) string {
	// what the standard transport's sanitising amounts to: every invalid byte
	// becomes U+FFFD; runs are collapsed so that both conventions agree.
	if utf8.ValidString(s) {
		return s
	}
	var b strings.Builder
	last := false
	for i := 0; i < len(s); {
		c, sz := utf8.DecodeRuneInString(s[i:])
		if c == utf8.RuneError && sz <= 1 {
			if !last {
				b.WriteRune(utf8.RuneError)
			}
			last = true
			i++
			continue
		}
		if c == utf8.RuneError {
			if !last {
				b.WriteRune(utf8.RuneError)
			}
			last = true
		} else {
			b.WriteRune(c)
			last = false
		}
		i += sz
	}
	return b.String()
}

var statusCodes = []uint32{1, 2, 3, 4, 5, 6, 7, 8, 9, 10, 11, 12, 13, 14, 15, 16, 17, 99, 1<<31 - 1, 1<<32 - 1}

func genDetails(r *rand.Rand) []*anypb.Any {
	n := r.Intn(4)
	var out []*anypb.Any
	for i := 0; i < n; i++ {
		out = append(out, genAny(r, 0))
	}
	if r.Intn(10) == 0 {
		a, _ := anypb.New(&tpb.Message{Payload: randBytes(r, 3000)})
		out = append(out, a)
	}
	if r.Intn(10) == 0 {
		a, _ := anypb.New(&httpgrpc.HttpTrailer{Code: 3, Message: "nested"})
		out = append(out, a)
	}
	return out
}
