package props

import (
	"context"
	"math/rand"
	"regexp"
	"runtime"
	"sort"
	"strings"
	"sync"
	"time"

	"github.com/fullstorydev/grpchan/httpgrpc"
	"github.com/fullstorydev/grpchan/inprocgrpc"
	"google.golang.org/grpc/metadata"
)

// hookPlan controls the schedule points of one run.
type hookPlan struct {
	mu      sync.Mutex
	hits    []string // points hit, in order
	parkAt  int      // index in hit order to park at (-1: none)
	parkPt  string   // or: park at the n-th hit of this point name
	parkNth int
	seen    map[string]int
	parked  chan string   // receives the point name when a goroutine parks
	release chan struct{} // closed to let it go on
	yield   *rand.Rand    // stress mode: random yields/sleeps
	ymu     sync.Mutex
}

func newHookPlan() *hookPlan {
	return &hookPlan{parkAt: -1, seen: map[string]int{}, parked: make(chan string, 1), release: make(chan struct{})}
}

var (
	hookPlans sync.Map // run id -> *hookPlan
	hookOnce  sync.Once
)

func runIDFromCtx(ctx context.Context) string {
	if ctx == nil {
		return ""
	}
	if md, ok := metadata.FromOutgoingContext(ctx); ok {
		if v := md.Get(runKey); len(v) > 0 {
			return v[len(v)-1]
		}
	}
	if md, ok := metadata.FromIncomingContext(ctx); ok {
		if v := md.Get(runKey); len(v) > 0 {
			return v[len(v)-1]
		}
	}
	return ""
}

func hookCallback(point string, ctx context.Context) {
	id := runIDFromCtx(ctx)
	if id == "" {
		return
	}
	v, ok := hookPlans.Load(id)
	if !ok {
		return
	}
	p := v.(*hookPlan)
	p.mu.Lock()
	idx := len(p.hits)
	p.hits = append(p.hits, point)
	p.seen[point]++
	park := idx == p.parkAt || (p.parkPt == point && p.seen[point] == p.parkNth)
	y := p.yield
	p.mu.Unlock()
	if park {
		select {
		case p.parked <- point:
		default:
		}
		<-p.release
		return
	}
	if y != nil {
		p.ymu.Lock()
		c := y.Intn(8)
		p.ymu.Unlock()
		switch {
		case c < 3:
			runtime.Gosched()
		case c == 3:
			time.Sleep(time.Duration(50+c*20) * time.Microsecond)
		}
	}
}

func installHooks() {
	hookOnce.Do(func() {
		inprocgrpc.VerifSetHook(hookCallback)
		httpgrpc.VerifSetHook(hookCallback)
	})
}

func (p *hookPlan) Hits() []string {
	p.mu.Lock()
	defer p.mu.Unlock()
	return append([]string(nil), p.hits...)
}

func (p *hookPlan) Release() {
	p.mu.Lock()
	defer p.mu.Unlock()
	select {
	case <-p.release:
	default:
		close(p.release)
	}
}

// ---------------------------------------------------------------------------
// goroutine dumps: park states and stability

type gInfo struct {
	id     string
	state  string
	frames []string // function names, innermost first
	lib    bool     // has grpchan library frames
	actor  bool     // is one of the harness' client/handler actors
}

var gHeader = regexp.MustCompile(`^goroutine (\d+) \[([^\],]+)(?:, [^\]]*)?\]:$`)

func parseStacks(dump string) []gInfo {
	var out []gInfo
	for _, blk := range strings.Split(dump, "\n\n") {
		lines := strings.Split(strings.TrimSpace(blk), "\n")
		if len(lines) == 0 {
			continue
		}
		m := gHeader.FindStringSubmatch(lines[0])
		if m == nil {
			continue
		}
		g := gInfo{id: m[1], state: m[2]}
		for _, l := range lines[1:] {
			if strings.HasPrefix(l, "\t") || strings.HasPrefix(l, "created by") {
				continue
			}
			fn := l
			if i := strings.LastIndex(fn, "("); i > 0 {
				fn = fn[:i]
			}
			g.frames = append(g.frames, fn)
			if strings.Contains(fn, "fullstorydev/grpchan/") && !strings.Contains(fn, "verifAt") {
				g.lib = true
			}
			if strings.Contains(fn, "props.(*Run).runClientOps") || strings.Contains(fn, "props.(*Run).runHandlerOps") || strings.Contains(fn, "props.(*Run).execUnary") {
				g.actor = true
			}
		}
		out = append(out, g)
	}
	return out
}

var blockedStates = map[string]bool{"chan receive": true, "chan send": true, "select": true, "semacquire": true, "sync.Mutex.Lock": true, "sync.RWMutex.RLock": true, "sync.RWMutex.Lock": true,
	"sync.Cond.Wait": true, "sync.WaitGroup.Wait": true, "IO wait": true, "chan receive (nil chan)": true, "select (no cases)": true}

// parkSignature summarises the actor and library goroutines of a dump;
// runnable reports whether any goroutine of the process (not only those) can
// still make progress on its own: a library goroutine waiting for a runnable
// net/http goroutine on a loaded machine is not stuck.
func parkSignature(dump string) (sig string, runnable bool, n int) {
	var parts []string
	for _, g := range parseStacks(dump) {
		self := false
		for _, f := range g.frames {
			if strings.Contains(f, "props.allStacks") {
				self = true
			}
		}
		if self {
			continue
		}
		if g.state == "runnable" || g.state == "running" {
			runnable = true
		}
		if !g.lib && !g.actor {
			continue
		}
		n++
		if !blockedStates[g.state] {
			runnable = true
		}
		top := g.frames
		if len(top) > 6 {
			top = top[:6]
		}
		parts = append(parts, g.id+"|"+g.state+"|"+strings.Join(top, "<"))
	}
	sort.Strings(parts)
	return strings.Join(parts, "\n"), runnable, n
}

// waitDoneOrStuck waits for done. If the actor/library goroutines are parked
// in the same blocking primitives over several samples (and none is runnable)
// it reports stuck=true with the dump; inconclusive=true if the watchdog fires
// while something is still runnable.
func waitDoneOrStuck(done <-chan struct{}, budget time.Duration) (finished, stuck bool, dump string) {
	deadline := time.Now().Add(budget)
	lastSig, same := "", 0
	tick := 20 * time.Millisecond
	for time.Now().Before(deadline) {
		select {
		case <-done:
			return true, false, ""
		case <-time.After(tick):
		}
		if tick < 250*time.Millisecond {
			tick *= 2
			continue
		}
		d := allStacks()
		sig, runnable, n := parkSignature(d)
		if runnable || n == 0 {
			lastSig, same = "", 0
			continue
		}
		if sig == lastSig {
			same++
			if same >= 6 {
				select {
				case <-done:
					return true, false, ""
				default:
				}
				return false, true, d
			}
		} else {
			lastSig, same = sig, 0
		}
	}
	select {
	case <-done:
		return true, false, ""
	default:
	}
	return false, false, allStacks()
}

// libraryGoroutines lists goroutines that still have library frames.
func libraryGoroutines(dump string) []string {
	var out []string
	for _, g := range parseStacks(dump) {
		if g.lib {
			top := g.frames
			if len(top) > 5 {
				top = top[:5]
			}
			first := ""
			for _, f := range g.frames {
				if strings.Contains(f, "fullstorydev/grpchan/") {
					first = f
					break
				}
			}
			out = append(out, "["+g.state+"] "+strings.Join(top, " < ")+" ... < "+first)
		}
	}
	return out
}
