package props

import (
	"context"
	"errors"
	"fmt"
	"strings"

	"github.com/fullstorydev/grpchan"
	tpb "github.com/fullstorydev/grpchan/grpchantesting"
	"google.golang.org/grpc"
	"google.golang.org/grpc/metadata"

	"verifharness/core"
)

func init() { core.Register("C17", checkC17) }

type c17ev struct {
	Tag    string // value the layers above put into the context
	Layer  int    // -1 = base channel
	Kind   string
	Method string
	Req    interface{}
	Reply  interface{}
	Desc   *grpc.StreamDesc
	Opts   []grpc.CallOption
	CC     *grpc.ClientConn
}

type c17rec struct{ evs []c17ev }

// fakeBase is a recording channel that is not a *grpc.ClientConn.
type fakeBase struct {
	rec    *c17rec
	err    error
	stream grpc.ClientStream
}

func (f *fakeBase) Invoke(ctx context.Context, method string, req, reply interface{}, opts ...grpc.CallOption) error {
	f.rec.evs = append(f.rec.evs, c17ev{Layer: -1, Kind: "unary", Method: method, Req: req, Reply: reply, Opts: opts, Tag: c17Tag(ctx)})
	return f.err
}

func (f *fakeBase) NewStream(ctx context.Context, desc *grpc.StreamDesc, method string, opts ...grpc.CallOption) (grpc.ClientStream, error) {
	f.rec.evs = append(f.rec.evs, c17ev{Layer: -1, Kind: "stream", Method: method, Desc: desc, Opts: opts, Tag: c17Tag(ctx)})
	return f.stream, f.err
}

type fakeStream struct{ grpc.ClientStream }

type extraOpt struct {
	grpc.EmptyCallOption
	id int
}

func sameOpts(a, b []grpc.CallOption) bool {
	if len(a) != len(b) {
		return false
	}
	for i := range a {
		if a[i] != b[i] {
			return false
		}
	}
	return true
}

func checkC17(e *core.Env) {
	curEnv = e
	e.SetRule("exhaustive: wrapping depth 1..4 x {unary-only, stream-only, both} interceptors per layer x base channel {recording fake, real *grpc.ClientConn (bufconn), in-process, HTTP} x behaviour {all pass, layer k short-circuits, layer k appends a call option and passes a derived context on}; on the recording base half of the configurations are called with a context that has already ended; every call is judged from the ordered log of instrumented interceptors and the recording base; distinct = distinct configurations")
	e.SetExhaustive(true)
	svc := &Service{}
	ref := NewRef(svc, carrierOpt{})
	inp := NewInproc(svc, carrierOpt{})
	htt := NewHTTPServer(svc, carrierOpt{})
	defer ref.Close()
	defer inp.Close()
	defer htt.Close()
	realCC := ref.CC.(*grpc.ClientConn)
	ref2 := NewRef(&Service{}, carrierOpt{})
	defer ref2.Close()
	realCC2 := ref2.CC.(*grpc.ClientConn)

	// identity with no interceptors
	for _, b := range []grpc.ClientConnInterface{&fakeBase{}, realCC, inp.CC, htt.CC} {
		if got := grpchan.InterceptClientConn(b, nil, nil); got != b {
			e.Violate("identity/nil-nil", fmt.Sprintf("InterceptClientConn(ch, nil, nil) returned %T, not the channel itself", got), nil)
		}
		// the older name of the same function
		if got := grpchan.InterceptChannel(b, nil, nil); got != b {
			e.Violate("identity/nil-nil-deprecated-name", fmt.Sprintf("InterceptChannel(ch, nil, nil) returned %T, not the channel itself", got), nil)
		}
		e.Eval("nilnil", false)
	}

	type layerCfg struct{ unary, stream bool }
	layerChoices := []layerCfg{{true, false}, {false, true}, {true, true}}
	baseNames := []string{"fake", "grpc.ClientConn", "inproc", "http"}
	caseNo := 0
	var rec func(depth int, cfg []layerCfg)
	runCfg := func(cfg []layerCfg) {
		d := len(cfg)
		// behaviours: -1 = all pass; (k, "short") ; (k, "alter")
		type beh struct {
			layer int
			what  string
		}
		behs := []beh{{-1, "pass"}}
		for k := 0; k < d; k++ {
			behs = append(behs, beh{k, "short"}, beh{k, "alter"})
		}
		for bi, bname := range baseNames {
			for _, bh := range behs {
				caseNo++
				if !e.Selected("cfg", caseNo) {
					continue
				}
				var sb strings.Builder
				for _, l := range cfg {
					fmt.Fprintf(&sb, "%v%v,", l.unary, l.stream)
				}
				desc := fmt.Sprintf("base=%s layers(inner..outer)=%s behaviour=%s@%d", bname, sb.String(), bh.what, bh.layer)
				e.Begin("cfg", caseNo, desc)
				log := &c17rec{}
				baseErr := errors.New("base result")
				baseStream := &fakeStream{}
				var base grpc.ClientConnInterface
				var wantCC *grpc.ClientConn
				switch bi {
				case 0:
					base = &fakeBase{rec: log, err: baseErr, stream: baseStream}
				case 1:
					base, wantCC = realCC, realCC
				case 2:
					base = inp.CC
				case 3:
					base = htt.CC
				}
				shortErr := errors.New("short-circuit")
				shortStream := &fakeStream{}
				chain := []grpc.ClientConnInterface{base}
				cur := base
				extras := make([]*extraOpt, d)
				for k := 0; k < d; k++ {
					k := k
					extras[k] = &extraOpt{id: k}
					var ui grpc.UnaryClientInterceptor
					var si grpc.StreamClientInterceptor
					if cfg[k].unary {
						ui = func(ctx context.Context, method string, req, reply interface{}, cc *grpc.ClientConn, invoker grpc.UnaryInvoker, opts ...grpc.CallOption) error {
							log.evs = append(log.evs, c17ev{Layer: k, Kind: "unary", Method: method, Req: req, Reply: reply, Opts: opts, CC: cc, Tag: c17Tag(ctx)})
							if bh.layer == k && bh.what == "short" {
								return shortErr
							}
							if bh.layer == k && bh.what == "alter" {
								opts = append(append([]grpc.CallOption(nil), opts...), extras[k])
								ctx = context.WithValue(ctx, c17TagKey{}, fmt.Sprintf("alt@%d", k))
							}
							return invoker(ctx, method, req, reply, cc, opts...)
						}
					}
					if cfg[k].stream {
						si = func(ctx context.Context, desc *grpc.StreamDesc, cc *grpc.ClientConn, method string, streamer grpc.Streamer, opts ...grpc.CallOption) (grpc.ClientStream, error) {
							log.evs = append(log.evs, c17ev{Layer: k, Kind: "stream", Method: method, Desc: desc, Opts: opts, CC: cc, Tag: c17Tag(ctx)})
							if bh.layer == k && bh.what == "short" {
								return shortStream, shortErr
							}
							if bh.layer == k && bh.what == "alter" {
								opts = append(append([]grpc.CallOption(nil), opts...), extras[k])
								ctx = context.WithValue(ctx, c17TagKey{}, fmt.Sprintf("alt@%d", k))
							}
							return streamer(ctx, desc, cc, method, opts...)
						}
					}
					w := grpchan.InterceptClientConn(cur, ui, si)
					if c17Entry++; c17Entry%2 == 0 {
						// every other layer is added through the older name of the same function
						w = grpchan.InterceptChannel(cur, ui, si)
					}
					wr, ok := w.(grpchan.WrappedClientConn)
					if !ok {
						e.Violate("wrap/not-wrapped", "InterceptClientConn with an interceptor did not return a WrappedClientConn: "+desc, desc)
					} else if wr.Unwrap() != cur {
						e.Violate("wrap/unwrap", "Unwrap() is not the wrapped channel: "+desc, desc)
					}
					cur = w
					chain = append(chain, w)
				}
				top := cur
				e.Eval(desc, true)

				for _, kind := range []string{"unary", "stream"} {
					log.evs = nil
					userOpt := &extraOpt{id: 100}
					req, reply := &tpb.Message{Payload: []byte("c17")}, &tpb.Message{}
					sdesc := ServerStream.StreamDesc()
					method := Unary.Method()
					var gotErr error
					var gotStream grpc.ClientStream
					var run *Run
					ctx := context.Background()
					if bi != 0 {
						sc := &Script{Kind: Unary, UnaryReq: req, Resp: &tpb.Message{Payload: []byte("ok")}}
						if kind == "stream" {
							sc = &Script{Kind: ServerStream, Handler: []Op{{Op: "recv"}}}
						}
						run = svc.NewRun(sc, bname)
						ctx = metadata.AppendToOutgoingContext(ctx, runKey, run.ID)
					}
					cctx, cancel := context.WithCancel(ctx)
					if bi == 0 && caseNo%2 == 1 {
						// a context that has already ended is the wrapped channel's business too: the call still
						// goes through every layer to the base once and the base's result comes back unchanged
						cancel()
					}
					if kind == "unary" {
						gotErr = top.Invoke(cctx, method, req, reply, userOpt)
					} else {
						method = ServerStream.Method()
						gotStream, gotErr = top.NewStream(cctx, sdesc, method, userOpt)
						if gotErr == nil && gotStream != nil && bi != 0 {
							gotStream.SendMsg(req)
							gotStream.CloseSend()
							gotErr = gotStream.RecvMsg(new(tpb.Message))
							if gotErr != nil && gotErr.Error() == "EOF" {
								gotErr = nil
							}
						}
					}
					cancel()
					if run != nil {
						svc.Forget(run)
					}
					// expected interceptor order: outermost first
					var wantLayers []int
					shorted := false
					for k := d - 1; k >= 0; k-- {
						if (kind == "unary" && cfg[k].unary) || (kind == "stream" && cfg[k].stream) {
							wantLayers = append(wantLayers, k)
							if bh.layer == k && bh.what == "short" {
								shorted = true
								break
							}
						}
					}
					var gotLayers []int
					var baseEv *c17ev
					for i := range log.evs {
						ev := &log.evs[i]
						if ev.Layer == -1 {
							baseEv = ev
						} else {
							gotLayers = append(gotLayers, ev.Layer)
						}
					}
					sig := "call/" + kind + "/"
					viol := func(s, m string) {
						e.Violate(sig+s, m+" ["+desc+"]", map[string]any{"config": desc, "interceptor_hits": gotLayers})
					}
					if fmt.Sprint(gotLayers) != fmt.Sprint(wantLayers) {
						viol("order", fmt.Sprintf("interceptor hits (layer numbers, 0=innermost) %v, want %v", gotLayers, wantLayers))
						continue
					}
					// arguments seen at each layer
					wantOpts := []grpc.CallOption{userOpt}
					wantTag := ""
					for _, ev := range log.evs {
						if ev.Tag != wantTag {
							viol("ctx", fmt.Sprintf("layer %d (-1 = base) saw the context value %q; what the layers above passed on carries %q", ev.Layer, ev.Tag, wantTag))
						}
						if ev.Layer == -1 {
							continue
						}
						if ev.Method != method {
							viol("method", fmt.Sprintf("layer %d saw method %q want %q", ev.Layer, ev.Method, method))
						}
						if kind == "unary" && (ev.Req != interface{}(req) || ev.Reply != interface{}(reply)) {
							viol("args", fmt.Sprintf("layer %d did not get the caller's request/reply objects", ev.Layer))
						}
						if kind == "stream" && ev.Desc != sdesc {
							viol("args", fmt.Sprintf("layer %d did not get the caller's stream descriptor", ev.Layer))
						}
						if !sameOpts(ev.Opts, wantOpts) {
							viol("opts", fmt.Sprintf("layer %d saw %d options, want %d (identity compared)", ev.Layer, len(ev.Opts), len(wantOpts)))
						}
						if ev.CC != wantCC {
							viol("cc", fmt.Sprintf("layer %d (depth %d) got cc=%p, want %p (underlying *grpc.ClientConn or nil)", ev.Layer, d, ev.CC, wantCC))
						}
						if bh.layer == ev.Layer && bh.what == "alter" {
							wantOpts = append(append([]grpc.CallOption(nil), wantOpts...), extras[ev.Layer])
							wantTag = fmt.Sprintf("alt@%d", ev.Layer)
						}
					}
					if bi == 0 {
						switch {
						case shorted && baseEv != nil:
							viol("short-circuit", "base channel was called although an interceptor short-circuited")
						case !shorted && baseEv == nil:
							viol("base-not-called", "base channel was not called")
						case !shorted:
							if baseEv.Method != method || (kind == "unary" && (baseEv.Req != interface{}(req) || baseEv.Reply != interface{}(reply))) || (kind == "stream" && baseEv.Desc != sdesc) {
								viol("base-args", "base channel did not get the caller's method/request/reply/descriptor")
							}
							if !sameOpts(baseEv.Opts, wantOpts) {
								viol("base-opts", fmt.Sprintf("base channel saw %d options, want %d", len(baseEv.Opts), len(wantOpts)))
							}
							if gotErr != baseErr {
								viol("result", fmt.Sprintf("caller got error %v, base returned %v", gotErr, baseErr))
							}
							if kind == "stream" && gotStream != grpc.ClientStream(baseStream) {
								viol("result", "caller did not get the base channel's stream object")
							}
						}
						if shorted && gotErr != shortErr {
							viol("result", fmt.Sprintf("caller got %v, interceptor returned %v", gotErr, shortErr))
						}
					} else {
						if shorted {
							if gotErr != shortErr {
								viol("result", fmt.Sprintf("caller got %v, interceptor returned %v", gotErr, shortErr))
							}
							if _, ran := run.HandlerReturn(); ran {
								viol("short-circuit", "handler ran although an interceptor short-circuited")
							}
						} else {
							if gotErr != nil {
								viol("result", fmt.Sprintf("real call through %s failed: %v", bname, gotErr))
							}
							if _, ran := run.HandlerReturn(); !ran {
								viol("base-not-called", "handler did not run")
							}
						}
					}
					e.Count("calls", 1)
				}
			}
		}
	}
	rec = func(depth int, cfg []layerCfg) {
		if len(cfg) == depth {
			runCfg(cfg)
			return
		}
		for _, c := range layerChoices {
			rec(depth, append(append([]layerCfg(nil), cfg...), c))
		}
	}
	for depth := 1; depth <= 4; depth++ {
		rec(depth, nil)
	}
	e.Sample(map[string]any{"configs": caseNo, "example": "base=grpc.ClientConn layers(inner..outer)=truefalse,falsetrue, behaviour=alter@1: stream call -> hits [1], cc must be the real ClientConn"})

	// what lies under a wrapper may change between calls (a channel that connects on first use): the connection
	// argument is worked out per call
	for depth := 1; depth <= 3; depth++ {
		lazy := &lazyConn{cur: &fakeBase{rec: &c17rec{}, err: errors.New("not connected yet")}}
		var seen []*grpc.ClientConn
		var top grpc.ClientConnInterface = lazy
		for k := 0; k < depth; k++ {
			top = grpchan.InterceptClientConn(top, func(ctx context.Context, method string, req, reply interface{}, cc *grpc.ClientConn, invoker grpc.UnaryInvoker, opts ...grpc.CallOption) error {
				seen = append(seen, cc)
				return invoker(ctx, method, req, reply, cc, opts...)
			}, func(ctx context.Context, desc *grpc.StreamDesc, cc *grpc.ClientConn, method string, streamer grpc.Streamer, opts ...grpc.CallOption) (grpc.ClientStream, error) {
				seen = append(seen, cc)
				return streamer(ctx, desc, cc, method, opts...)
			})
		}
		for step, want := range []*grpc.ClientConn{nil, realCC, realCC, realCC2, realCC2, nil, realCC} {
			switch step {
			case 1, 6:
				lazy.cur = realCC
			case 3:
				lazy.cur = realCC2 // fail-over to another connection
			case 5:
				lazy.cur = &fakeBase{rec: &c17rec{}, err: errors.New("standby that is not a gRPC connection")}
			}
			seen = nil
			cctx, cancel := context.WithCancel(context.Background())
			if step == 2 || step == 4 {
				st, err := top.NewStream(cctx, ServerStream.StreamDesc(), ServerStream.Method())
				if err == nil && st != nil {
					st.CloseSend()
				}
			} else {
				top.Invoke(cctx, Unary.Method(), &tpb.Message{}, new(tpb.Message))
			}
			cancel()
			e.Eval(fmt.Sprintf("lazy|depth=%d|step=%d", depth, step), true)
			for li, cc := range seen {
				if cc != want {
					e.Violate("call/lazy-base/cc", fmt.Sprintf("depth %d, call #%d: interceptor #%d (outermost first) got cc=%p, the connection under the wrappers at that moment is %p", depth, step+1, li, cc, want), nil)
					break
				}
			}
			if len(seen) != depth {
				e.Violate("call/lazy-base/order", fmt.Sprintf("depth %d, call #%d: %d interceptor hits", depth, step+1, len(seen)), nil)
			}
		}
	}
	// an interceptor of one channel makes a side call on ANOTHER intercepted channel with the context it was
	// given (fetching a token, say): that channel's interceptors are told about their own root, not about the
	// connection of the call the context came from
	for _, sideReal := range []bool{false, true} {
		var sideSeen, mainSeen []*grpc.ClientConn
		var sideRoot grpc.ClientConnInterface = &fakeBase{rec: &c17rec{}, err: errors.New("side service")}
		wantSide := (*grpc.ClientConn)(nil)
		if sideReal {
			sideRoot, wantSide = realCC2, realCC2
		}
		side := grpchan.InterceptClientConn(sideRoot, func(ctx context.Context, method string, req, reply interface{}, cc *grpc.ClientConn, invoker grpc.UnaryInvoker, opts ...grpc.CallOption) error {
			sideSeen = append(sideSeen, cc)
			return invoker(ctx, method, req, reply, cc, opts...)
		}, nil)
		main := grpchan.InterceptClientConn(grpchan.InterceptClientConn(realCC, func(ctx context.Context, method string, req, reply interface{}, cc *grpc.ClientConn, invoker grpc.UnaryInvoker, opts ...grpc.CallOption) error {
			mainSeen = append(mainSeen, cc)
			sctx, scancel := context.WithCancel(ctx)
			side.Invoke(sctx, Unary.Method(), &tpb.Message{}, new(tpb.Message))
			scancel()
			return invoker(ctx, method, req, reply, cc, opts...)
		}, nil), func(ctx context.Context, method string, req, reply interface{}, cc *grpc.ClientConn, invoker grpc.UnaryInvoker, opts ...grpc.CallOption) error {
			mainSeen = append(mainSeen, cc)
			return invoker(ctx, method, req, reply, cc, opts...)
		}, nil)
		cctx, cancel := context.WithCancel(context.Background())
		main.Invoke(cctx, Unary.Method(), &tpb.Message{}, new(tpb.Message))
		cancel()
		e.Eval(fmt.Sprintf("side-call|real=%v", sideReal), true)
		if len(sideSeen) != 1 || sideSeen[0] != wantSide {
			e.Violate("call/side-call/cc", fmt.Sprintf("a side call made from inside another channel's interceptor with that call's context: the side channel's interceptor got cc=%v (hits %d), its own root connection is %p", sideSeen, len(sideSeen), wantSide), nil)
		}
		for _, cc := range mainSeen {
			if cc != realCC {
				e.Violate("call/side-call/cc", fmt.Sprintf("the main channel's interceptors got cc=%p, want %p", cc, realCC), nil)
				break
			}
		}
	}
	checkC17Foreign(e, realCC)
}

var c17Entry int

// plainWrap is an application's own wrapper (metrics, retries, ...): it implements WrappedClientConn and nothing
// else of the library.
type plainWrap struct{ grpc.ClientConnInterface }

func (p plainWrap) Unwrap() grpc.ClientConnInterface { return p.ClientConnInterface }

// taggedWrap is another wrapper of the application's own: a struct used by value that holds a slice, so two
// of them cannot be compared with == (the library has no reason to compare channels).
type taggedWrap struct {
	grpc.ClientConnInterface
	tags []string
}

func (p taggedWrap) Unwrap() grpc.ClientConnInterface { return p.ClientConnInterface }

// checkC17Foreign: wrappers of the application's own between, above and below the library's layers. The
// connection argument is the root connection whatever kinds of wrapper lie in between; every library layer is
// still entered exactly once, outermost first.
func checkC17Foreign(e *core.Env, realCC *grpc.ClientConn) {
	for _, root := range []string{"real", "fake"} {
		for _, pattern := range []string{"FL", "LFL", "FFL", "LFFL", "FLFL", "LLFL", "FLF", "LFLF", "VL", "VVL", "LVVL", "VFVL", "VVLV"} { // bottom to top
			var base grpc.ClientConnInterface = realCC
			want := realCC
			if root == "fake" {
				base, want = &fakeBase{rec: &c17rec{}, err: errors.New("fake base")}, nil
			}
			var seen []*grpc.ClientConn
			var order []int
			top, nL := base, 0
			for _, k := range pattern {
				if k == 'F' {
					top = plainWrap{top}
					continue
				}
				if k == 'V' {
					top = taggedWrap{top, []string{"a value type that cannot be compared with =="}}
					continue
				}
				id := nL
				nL++
				top = grpchan.InterceptClientConn(top, func(ctx context.Context, method string, req, reply interface{}, cc *grpc.ClientConn, invoker grpc.UnaryInvoker, opts ...grpc.CallOption) error {
					seen, order = append(seen, cc), append(order, id)
					return invoker(ctx, method, req, reply, cc, opts...)
				}, func(ctx context.Context, desc *grpc.StreamDesc, cc *grpc.ClientConn, method string, streamer grpc.Streamer, opts ...grpc.CallOption) (grpc.ClientStream, error) {
					seen, order = append(seen, cc), append(order, id)
					return streamer(ctx, desc, cc, method, opts...)
				})
			}
			for _, kind := range []string{"unary", "stream"} {
				seen, order = nil, nil
				cctx, cancel := context.WithCancel(context.Background())
				pan := guard(func() {
					if kind == "stream" {
						st, err := top.NewStream(cctx, ServerStream.StreamDesc(), ServerStream.Method())
						if err == nil && st != nil {
							st.CloseSend()
						}
					} else {
						top.Invoke(cctx, Unary.Method(), &tpb.Message{}, new(tpb.Message))
					}
				})
				cancel()
				e.Eval(fmt.Sprintf("foreign|%s|%s|%s", root, pattern, kind), true)
				if pan != "" {
					e.Violate("call/foreign-wrappers/panic", fmt.Sprintf("root=%s wrappers bottom-to-top=%s, %s call: %s", root, pattern, kind, trunc(pan, 400)), nil)
					continue
				}
				desc := fmt.Sprintf("root=%s wrappers bottom-to-top=%s (F, V = the application's own WrappedClientConns, V an uncomparable value type; L = InterceptClientConn), %s call", root, pattern, kind)
				for li, cc := range seen {
					if cc != want {
						e.Violate("call/foreign-wrappers/cc", fmt.Sprintf("%s: interceptor #%d (outermost first) got cc=%p, the root connection is %p", desc, li, cc, want), nil)
						break
					}
				}
				if len(order) != nL {
					e.Violate("call/foreign-wrappers/order", fmt.Sprintf("%s: %d interceptor hits, %d library layers", desc, len(order), nL), nil)
					continue
				}
				for li, id := range order {
					if id != nL-1-li {
						e.Violate("call/foreign-wrappers/order", fmt.Sprintf("%s: layers entered in order %v (ids count from the bottom)", desc, order), nil)
						break
					}
				}
			}
		}
	}
}

// lazyConn is a wrapper whose underlying channel changes over time.
type lazyConn struct{ cur grpc.ClientConnInterface }

func (l *lazyConn) Invoke(ctx context.Context, method string, req, reply interface{}, opts ...grpc.CallOption) error {
	return l.cur.Invoke(ctx, method, req, reply, opts...)
}
func (l *lazyConn) NewStream(ctx context.Context, desc *grpc.StreamDesc, method string, opts ...grpc.CallOption) (grpc.ClientStream, error) {
	return l.cur.NewStream(ctx, desc, method, opts...)
}
func (l *lazyConn) Unwrap() grpc.ClientConnInterface { return l.cur }

type c17TagKey struct{}

func c17Tag(ctx context.Context) string {
	t, _ := ctx.Value(c17TagKey{}).(string)
	return t
}
