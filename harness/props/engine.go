// Package props contains one runtime monitor per property plus the shared
// scripted-RPC engine: a service whose handlers interpret generated scripts,
// client actors that do the same, and an event log recorded at the API
// boundary.
package props

import (
	"context"
	"errors"
	"fmt"
	"google.golang.org/protobuf/types/known/emptypb"
	"io"
	"net/url"
	"runtime"
	"sort"
	"strings"
	"sync"
	"sync/atomic"
	"time"

	tpb "github.com/fullstorydev/grpchan/grpchantesting"
	"google.golang.org/grpc"
	"google.golang.org/grpc/codes"
	"google.golang.org/grpc/metadata"
	"google.golang.org/grpc/peer"
	"google.golang.org/grpc/status"
	"google.golang.org/protobuf/proto"
	"google.golang.org/protobuf/types/known/anypb"

	"verifharness/core"
)

type Kind int

const (
	Unary Kind = iota
	ClientStream
	ServerStream
	Bidi
)

func (k Kind) String() string {
	return [...]string{"unary", "client-stream", "server-stream", "bidi"}[k]
}

func (k Kind) Method() string {
	return [...]string{"/verif.Scripted/Unary", "/verif.Scripted/ClientStream", "/verif.Scripted/ServerStream", "/verif.Scripted/Bidi"}[k]
}

func (k Kind) ClientStreams() bool { return k == ClientStream || k == Bidi }
func (k Kind) ServerStreams() bool { return k == ServerStream || k == Bidi }

func (k Kind) StreamDesc() *grpc.StreamDesc {
	return &grpc.StreamDesc{StreamName: strings.TrimPrefix(k.Method(), "/verif.Scripted/"), ClientStreams: k.ClientStreams(), ServerStreams: k.ServerStreams()}
}

// recvAllLimit bounds "receive until the end" loops (scripts never send that many).
const recvAllLimit = 2000

// statusOverCtx carries its own status and unwraps to a context error: the status is what counts.
type statusOverCtx struct {
	st    *status.Status
	cause error
}

func (e statusOverCtx) Error() string              { return e.st.Err().Error() + ": " + e.cause.Error() }
func (e statusOverCtx) GRPCStatus() *status.Status { return e.st }
func (e statusOverCtx) Unwrap() error              { return e.cause }

// okCodedError is an error whose gRPC status carries code OK (only possible with a custom type).
type okCodedError struct{ msg string }

func (e okCodedError) Error() string              { return e.msg }
func (e okCodedError) GRPCStatus() *status.Status { return status.New(codes.OK, e.msg) }

// Ret describes what a handler returns.
type Ret struct {
	How     string       `json:"how"` // ok | status | plain | eof | ueof | ctxerr | canceled | deadline
	Code    uint32       `json:"code,omitempty"`
	Msg     string       `json:"msg,omitempty"`
	Details []*anypb.Any `json:"-"`
	NDet    int          `json:"ndetails,omitempty"`
}

// Err builds the Go error the handler returns.
func (r Ret) Err(ctx context.Context) error {
	switch r.How {
	case "", "ok":
		return nil
	case "status":
		sp := status.New(codes.Code(r.Code), r.Msg).Proto()
		sp.Details = r.Details
		return status.FromProto(sp).Err()
	case "plain":
		return errors.New(r.Msg)
	case "eof":
		return io.EOF
	case "ueof":
		return io.ErrUnexpectedEOF
	case "ctxerr":
		return ctx.Err()
	case "canceled":
		return context.Canceled
	case "deadline":
		return context.DeadlineExceeded
	case "okcoded":
		return okCodedError{r.Msg}
	case "status-over-ctx": // an error with a status of its own whose cause happens to be a context error
		return statusOverCtx{status.New(codes.Code(r.Code), r.Msg), context.DeadlineExceeded}
	case "wrapped-canceled": // what a handler gets back from a downstream call that was given its context
		return fmt.Errorf("downstream call: %w", context.Canceled)
	case "wrapped-deadline":
		return &url.Error{Op: "Post", URL: "http://downstream.test/", Err: context.DeadlineExceeded}
	case "joined-canceled": // several errors reported together (errors.Join), one of them the context's
		return errors.Join(errors.New("flushing the cache failed"), context.Canceled)
	case "joined-deadline":
		return fmt.Errorf("%w; %w", errors.New("partial result discarded"), context.DeadlineExceeded)
	}
	panic("bad Ret.How " + r.How)
}

// Op is one step of a client or handler script.
type Op struct {
	Op   string       `json:"op"`            // client: send close recv header trailer cancel gate sleep | handler: recv send sethdr sendhdr settrl gate waitctx signal
	Msg  *tpb.Message `json:"-"`             // for send
	MsgD string       `json:"msg,omitempty"` // short description of Msg for witnesses
	MD   metadata.MD  `json:"md,omitempty"`
	Gate string       `json:"gate,omitempty"`
}

// Script is one generated RPC program.
type Script struct {
	Kind     Kind         `json:"kind"`
	ReqMD    metadata.MD  `json:"req_md,omitempty"`
	UnaryReq *tpb.Message `json:"-"`
	Sender   []Op         `json:"sender,omitempty"`   // client ops, goroutine 1 (for unary: ignored)
	Receiver []Op         `json:"receiver,omitempty"` // client ops, goroutine 2 (optional)
	Handler  []Op         `json:"handler,omitempty"`
	Resp     *tpb.Message `json:"-"` // unary response (nil allowed)
	Ret      Ret          `json:"ret"`
	NHdrOpt  int          `json:"n_header_opts,omitempty"`
	NTrlOpt  int          `json:"n_trailer_opts,omitempty"`
	PeerOpt  bool         `json:"peer_opt,omitempty"`
	// ViaCtx: the handler sets and sends its metadata through the package-level functions of grpc
	// (grpc.SetHeader / SendHeader / SetTrailer with its context) instead of the stream's methods
	ViaCtx bool `json:"via_ctx,omitempty"`
	// CallTimeout > 0: the caller's context carries a deadline that far away
	CallTimeout  time.Duration     `json:"call_timeout,omitempty"`
	ReuseDest    bool              `json:"reuse_dest,omitempty"`     // each side receives every message into one and the same message value
	CredMD       map[string]string `json:"cred_md,omitempty"`        // metadata of per-RPC credentials attached to the call
	NoAppendedMD bool              `json:"no_appended_md,omitempty"` // all request metadata goes through NewOutgoingContext
	// RecvFirst makes the receiver goroutine start only after the sender
	// goroutine has finished (needed for HTTP half-duplex).
	RecvAfterSend bool `json:"recv_after_send,omitempty"`
	// MutateAfterSend: every sender overwrites its message in place as soon as
	// the send has returned (legal re-use; the log keeps a snapshot).
	MutateAfterSend bool `json:"mutate_after_send,omitempty"`
	// ReuseMD: the handler overwrites each metadata map right after handing it to SetHeader/SendHeader/SetTrailer.
	ReuseMD bool `json:"reuse_md,omitempty"`
	// MutateAfterRecv: every receiver scribbles over the message it received
	// (after the log has taken a snapshot).
	MutateAfterRecv bool `json:"mutate_after_recv,omitempty"`
	// CancelAfterClient cancels the caller's context once the client actors
	// are done (what an application does when it abandons a stream).
	CancelAfterClient bool              `json:"cancel_after_client,omitempty"`
	ExtraOpts         []grpc.CallOption `json:"-"`
}

func (s *Script) Shape() string {
	var b strings.Builder
	fmt.Fprintf(&b, "%s|", s.Kind)
	for _, o := range s.Sender {
		b.WriteString(o.Op[:2])
	}
	b.WriteString("|")
	for _, o := range s.Receiver {
		b.WriteString(o.Op[:2])
	}
	b.WriteString("|")
	for _, o := range s.Handler {
		b.WriteString(o.Op[:3])
	}
	fmt.Fprintf(&b, "|%s/%d", s.Ret.How, s.Ret.Code)
	return b.String()
}

// Event is one recorded boundary event.
type Event struct {
	T    int64        `json:"t"`
	Who  string       `json:"who"` // cs (client sender) cr (client receiver) h (handler) x (harness)
	Op   string       `json:"op"`
	Call bool         `json:"call,omitempty"` // true = about to invoke, false = returned
	Msg  *tpb.Message `json:"-"`
	MsgD string       `json:"msg,omitempty"`
	MD   metadata.MD  `json:"md,omitempty"`
	Err  error        `json:"-"`
	ErrS string       `json:"err,omitempty"`
	Pan  string       `json:"panic,omitempty"`
}

// Run is one execution of a script on a carrier.
type Run struct {
	ID      string
	S       *Script
	Carrier string

	mu          sync.Mutex
	events      []Event
	gates       map[string]chan struct{}
	releasedAll bool

	Ctx    context.Context
	Cancel context.CancelFunc

	handlerStarted chan struct{}
	handlerDone    chan struct{}
	ClientDone     chan struct{} // closed when the client actors have finished
	hStarted       atomic.Int32
	Stuck          bool // the watchdog fired with every goroutine parked for good
	HandlerCtx     context.Context
	HandlerMD      metadata.MD
	HandlerPeer    *peer.Peer
	HandlerCtxDone atomic.Bool
	HandlerCtxErr  error

	// client side results
	HdrTargets   []*metadata.MD
	TrlTargets   []*metadata.MD
	PeerTarget   *peer.Peer
	OutMD        metadata.MD // the very map given to metadata.NewOutgoingContext
	Stream       grpc.ClientStream
	UnaryResp    *tpb.Message
	NewStreamErr error

	RecvStarted   atomic.Int64 // receives (RecvMsg / first Header) started by the client (C20)
	headerCounted atomic.Bool
	HRecvStarted  atomic.Int64 // receives started by the handler
	CSendDone     atomic.Int64 // client sends that returned nil
	HSendDone     atomic.Int64 // handler sends that returned nil
	// Lead records every moment a sender was more than one message ahead of
	// the receives its peer had started (checked when a send returns).
	leadMu         sync.Mutex
	Lead           []string
	cReuse, hReuse *tpb.Message   // receive destinations with Script.ReuseDest
	bg             sync.WaitGroup // goroutines started by "bg-sends"
	// AfterOpen, if set, runs in the caller's goroutine straight after NewStream returned.
	AfterOpen func()
	// OnHandler, if set, runs inside the handler before its script (probes).
	OnHandler func(ctx context.Context, r *Run, stream grpc.ServerStream)
	// OnRecv, if set, is called with every message the client receives (fresh object).
	OnRecv  func(m *tpb.Message)
	OnHRecv func(m *tpb.Message)
	Dest    func() *tpb.Message // client receive destination factory (default: new(Message))
	HDest   func() *tpb.Message // handler receive destination factory
	// the very objects handed to / obtained from the library, in order (C06)
	objMu                                      sync.Mutex
	CSentObjs, HSentObjs, CRecvObjs, HRecvObjs []*tpb.Message
	// streamDescOverride replaces the client-side stream descriptor (raw clients
	// may claim other streaming flags than the method has).
	streamDescOverride *grpc.StreamDesc
}

func (r *Run) rec(ev Event) {
	ev.T = core.Tick()
	if ev.Err != nil {
		ev.ErrS = ev.Err.Error()
	}
	if ev.Msg != nil {
		ev.MsgD = msgDesc(ev.Msg)
	}
	r.mu.Lock()
	r.events = append(r.events, ev)
	r.mu.Unlock()
}

// InterleavingSig summarises the cross-actor order of the recorded events.
func (r *Run) InterleavingSig() string {
	var b strings.Builder
	b.WriteString(r.Carrier + "|" + r.S.Kind.String() + "|")
	for _, e := range r.Events() {
		if e.Who == "x" {
			continue
		}
		b.WriteString(e.Who[:1] + e.Op[:1])
		if e.Call {
			b.WriteByte('(')
		} else if e.Err != nil {
			b.WriteByte('!')
		}
	}
	return b.String()
}

// curEnv is the environment of the check running in this (child) process.
var curEnv *core.Env

// noteRun feeds what a finished run observed into the evidence counters.
func noteRun(r *Run) {
	if curEnv == nil || r == nil {
		return
	}
	curEnv.Distinct("interleavings", r.InterleavingSig())
	curEnv.Count("events_observed", int64(len(r.Events())))
	curEnv.Count("runs_observed", 1)
}

// Events returns a copy of the log.
func (r *Run) Events() []Event {
	r.mu.Lock()
	defer r.mu.Unlock()
	return append([]Event(nil), r.events...)
}

// Rets returns the return events of one actor/op.
func (r *Run) Rets(who, op string) []Event {
	var out []Event
	for _, e := range r.Events() {
		if !e.Call && e.Who == who && e.Op == op {
			out = append(out, e)
		}
	}
	return out
}

func (r *Run) gate(name string) chan struct{} {
	r.mu.Lock()
	defer r.mu.Unlock()
	if r.gates == nil {
		r.gates = map[string]chan struct{}{}
	}
	g, ok := r.gates[name]
	if !ok {
		g = make(chan struct{})
		if r.releasedAll {
			close(g)
		}
		r.gates[name] = g
	}
	return g
}

// Release opens a gate (idempotent).
func (r *Run) Release(name string) {
	g := r.gate(name)
	r.mu.Lock()
	defer r.mu.Unlock()
	select {
	case <-g:
	default:
		close(g)
	}
}

// ReleaseAll opens every gate that exists or will be asked for.
func (r *Run) ReleaseAll() {
	r.mu.Lock()
	r.releasedAll = true
	for _, g := range r.gates {
		select {
		case <-g:
		default:
			close(g)
		}
	}
	r.mu.Unlock()
}

func msgDesc(m *tpb.Message) string {
	if m == nil {
		return "<nil>"
	}
	b, _ := proto.MarshalOptions{Deterministic: true}.Marshal(m)
	p := m.Payload
	if len(p) > 24 {
		p = p[:24]
	}
	return fmt.Sprintf("len=%d payload=%q.. count=%d hdr=%d trl=%d det=%d unk=%d", len(b), p, m.Count, len(m.Headers), len(m.Trailers), len(m.ErrorDetails), len(m.ProtoReflect().GetUnknown()))
}

// ---------------------------------------------------------------------------
// The scripted service

// ScriptedServer is the handler type of the synthetic service.
type ScriptedServer interface {
	scripted()
}

// Service is the scripted implementation; it finds the Run for a call through
// the x-verif-run request metadata.
type Service struct {
	runs sync.Map // id -> *Run
	seq  atomic.Int64
	// OnUnknown, if set, sees the context of a handler invocation that carries no known run id
	// (e.g. because the request metadata did not reach the handler).
	OnUnknown func(ctx context.Context)
	// Unknown counts handler invocations without a known run id.
	Unknown atomic.Int64
}

func (*Service) scripted() {}

const runKey = "x-verif-run"

func (s *Service) NewRun(sc *Script, carrier string) *Run {
	id := fmt.Sprintf("r%d", s.seq.Add(1))
	r := &Run{ID: id, S: sc, Carrier: carrier, handlerStarted: make(chan struct{}), handlerDone: make(chan struct{}), ClientDone: make(chan struct{})}
	s.runs.Store(id, r)
	return r
}

func (s *Service) Forget(r *Run) { s.runs.Delete(r.ID) }

// peek finds the run without counting unknown ids.
func (s *Service) peek(ctx context.Context) *Run {
	md, _ := metadata.FromIncomingContext(ctx)
	if v := md.Get(runKey); len(v) > 0 {
		if r, ok := s.runs.Load(v[len(v)-1]); ok {
			return r.(*Run)
		}
	}
	return nil
}

func (s *Service) lookup(ctx context.Context) *Run {
	md, _ := metadata.FromIncomingContext(ctx)
	v := md.Get(runKey)
	if len(v) == 0 {
		s.Unknown.Add(1)
		if s.OnUnknown != nil {
			s.OnUnknown(ctx)
		}
		return nil
	}
	r, ok := s.runs.Load(v[len(v)-1])
	if !ok {
		s.Unknown.Add(1)
		if s.OnUnknown != nil {
			s.OnUnknown(ctx)
		}
		return nil
	}
	return r.(*Run)
}

// ScriptedDesc is registered on every carrier.
var ScriptedDesc = grpc.ServiceDesc{
	ServiceName: "verif.Scripted",
	HandlerType: (*ScriptedServer)(nil),
	Methods:     []grpc.MethodDesc{{MethodName: "Unary", Handler: scriptedUnaryHandler}},
	Streams: []grpc.StreamDesc{
		{StreamName: "ClientStream", ClientStreams: true, Handler: scriptedStreamHandler},
		{StreamName: "ServerStream", ServerStreams: true, Handler: scriptedStreamHandler},
		{StreamName: "Bidi", ClientStreams: true, ServerStreams: true, Handler: scriptedStreamHandler},
	},
	Metadata: "verif/scripted.proto",
}

func scriptedUnaryHandler(srv interface{}, ctx context.Context, dec func(interface{}) error, interceptor grpc.UnaryServerInterceptor) (interface{}, error) {
	in := new(tpb.Message)
	if r := srv.(*Service).peek(ctx); r != nil {
		in = r.newHDest()
	}
	if err := dec(in); err != nil {
		return nil, err
	}
	h := func(ctx context.Context, req interface{}) (interface{}, error) {
		return srv.(*Service).unary(ctx, req.(*tpb.Message))
	}
	if interceptor == nil {
		return h(ctx, in)
	}
	return interceptor(ctx, in, &grpc.UnaryServerInfo{Server: srv, FullMethod: "/verif.Scripted/Unary"}, h)
}

func scriptedStreamHandler(srv interface{}, stream grpc.ServerStream) error {
	return srv.(*Service).stream(stream)
}

func (s *Service) enter(ctx context.Context, r *Run) {
	r.HandlerCtx = ctx
	r.HandlerMD, _ = metadata.FromIncomingContext(ctx)
	r.HandlerPeer, _ = peer.FromContext(ctx)
	if r.hStarted.Add(1) == 1 {
		close(r.handlerStarted)
	}
	r.rec(Event{Who: "h", Op: "start"})
	go func() {
		select {
		case <-ctx.Done():
			r.HandlerCtxErr = ctx.Err()
			r.HandlerCtxDone.Store(true)
			r.rec(Event{Who: "x", Op: "hctxdone", Err: ctx.Err()})
		case <-r.handlerDone:
		}
	}()
}

func (s *Service) unary(ctx context.Context, req *tpb.Message) (resp *tpb.Message, err error) {
	r := s.lookup(ctx)
	if r == nil {
		return nil, status.Error(codes.FailedPrecondition, "verif: unknown run")
	}
	s.enter(ctx, r)
	defer func() {
		r.rec(Event{Who: "h", Op: "return", Err: err, Msg: resp})
		if r.hStarted.Load() == 1 {
			close(r.handlerDone)
		}
	}()
	r.rec(Event{Who: "h", Op: "recv", Msg: r.recvd(true, req)})
	if r.OnHandler != nil {
		r.OnHandler(ctx, r, nil)
	}
	r.runHandlerOps(ctx, nil)
	err = r.S.Ret.Err(ctx)
	if err == nil {
		resp = r.S.Resp
		if resp != nil {
			r.noteObj(&r.HSentObjs, resp)
		}
	}
	return resp, err
}

func (s *Service) stream(stream grpc.ServerStream) (err error) {
	ctx := stream.Context()
	r := s.lookup(ctx)
	if r == nil {
		return status.Error(codes.FailedPrecondition, "verif: unknown run")
	}
	s.enter(ctx, r)
	defer func() {
		r.rec(Event{Who: "h", Op: "return", Err: err})
		if r.hStarted.Load() == 1 {
			close(r.handlerDone)
		}
	}()
	if r.OnHandler != nil {
		r.OnHandler(ctx, r, stream)
	}
	r.runHandlerOps(ctx, stream)
	if r.S.Ret.How == "recverr" {
		// return the first receive error other than io.EOF, as generated handlers do
		for _, ev := range r.Events() {
			if ev.Who == "h" && ev.Op == "recv" && !ev.Call && ev.Err != nil && ev.Err != io.EOF {
				return ev.Err
			}
		}
		return nil
	}
	return r.S.Ret.Err(ctx)
}

// guard runs fn and converts a panic into a recorded event.
func guard(fn func()) (pan string) {
	defer func() {
		if p := recover(); p != nil {
			buf := make([]byte, 8192)
			buf = buf[:runtime.Stack(buf, false)]
			pan = fmt.Sprintf("%v\n%s", p, buf)
		}
	}()
	fn()
	return ""
}

func (r *Run) runHandlerOps(ctx context.Context, stream grpc.ServerStream) {
	for _, op := range r.S.Handler {
		switch op.Op {
		case "recv":
			if stream == nil {
				continue
			}
			m := r.newHDest()
			r.HRecvStarted.Add(1)
			r.rec(Event{Who: "h", Op: "recv", Call: true})
			var err error
			pan := guard(func() { err = stream.RecvMsg(m) })
			if err != nil || pan != "" {
				m = nil
			} else {
				m = r.recvd(true, m)
			}
			r.rec(Event{Who: "h", Op: "recv", Msg: m, Err: err, Pan: pan})
		case "recvall":
			if stream == nil {
				continue
			}
			for n := 0; ; n++ {
				if n > recvAllLimit {
					r.rec(Event{Who: "h", Op: "recv", Pan: fmt.Sprintf("endless stream: more than %d messages received without reaching the end", recvAllLimit)})
					break
				}
				m := r.newHDest()
				r.HRecvStarted.Add(1)
				r.rec(Event{Who: "h", Op: "recv", Call: true})
				var err error
				pan := guard(func() { err = stream.RecvMsg(m) })
				if err != nil || pan != "" {
					m = nil
				} else {
					m = r.recvd(true, m)
				}
				r.rec(Event{Who: "h", Op: "recv", Msg: m, Err: err, Pan: pan})
				if err != nil || pan != "" {
					break
				}
			}
		case "send":
			if stream == nil {
				continue
			}
			msg, snap := r.sendArg(op.Msg)
			r.noteObj(&r.HSentObjs, msg)
			r.rec(Event{Who: "h", Op: "send", Call: true, Msg: snap})
			var err error
			pan := guard(func() { err = stream.SendMsg(msg) })
			if err == nil && pan == "" {
				r.checkLead("handler", r.HSendDone.Add(1), r.RecvStarted.Load())
			}
			if r.S.MutateAfterSend {
				mutateMsg(msg)
			}
			r.rec(Event{Who: "h", Op: "send", Msg: snap, Err: err, Pan: pan})
		case "spawn-send":
			// a goroutine of the handler that still uses the stream after the handler returned
			if stream == nil {
				continue
			}
			msg := op.Msg
			go func() {
				<-r.handlerDone
				var err error
				// it is still a send attempt of the handler side: logged as such
				r.rec(Event{Who: "h", Op: "send", Call: true, Msg: msg})
				pan := guard(func() { err = stream.SendMsg(msg) })
				r.rec(Event{Who: "h", Op: "send", Msg: msg, Err: err, Pan: pan})
				r.rec(Event{Who: "hg", Op: "late-send", Err: err, Pan: pan})
				pan = guard(func() {
					stream.SetTrailer(metadata.MD{"late": {"x"}})
					err = stream.SetHeader(metadata.MD{"late": {"y"}})
				})
				r.rec(Event{Who: "hg", Op: "late-meta", Err: err, Pan: pan})
				pan = guard(func() { err = stream.SendHeader(metadata.MD{"late": {"z"}}) })
				r.rec(Event{Who: "hg", Op: "late-sendheader", Err: err, Pan: pan})
			}()
		case "sendraw":
			if stream == nil {
				continue
			}
			raw, _ := rawMsgs.Load(r.ID)
			r.rec(Event{Who: "h", Op: "send", Call: true})
			var err error
			pan := guard(func() { err = stream.SendMsg(raw) })
			r.rec(Event{Who: "h", Op: "send", Err: err, Pan: pan})
		case "sethdr", "sendhdr":
			var err error
			md := r.mdArg(op.MD)
			pan := guard(func() {
				switch {
				case stream != nil && op.Op == "sethdr" && !r.S.ViaCtx:
					err = stream.SetHeader(md)
				case stream != nil && !r.S.ViaCtx:
					err = stream.SendHeader(md)
				case op.Op == "sethdr":
					err = grpc.SetHeader(ctx, md)
				default:
					err = grpc.SendHeader(ctx, md)
				}
			})
			r.scribbleMD(md)
			r.rec(Event{Who: "h", Op: op.Op, MD: op.MD, Err: err, Pan: pan})
		case "settrl":
			var err error
			md := r.mdArg(op.MD)
			pan := guard(func() {
				if stream != nil && !r.S.ViaCtx {
					stream.SetTrailer(md)
				} else {
					err = grpc.SetTrailer(ctx, md)
				}
			})
			r.scribbleMD(md)
			r.rec(Event{Who: "h", Op: "settrl", MD: op.MD, Err: err, Pan: pan})
		case "gate":
			r.rec(Event{Who: "h", Op: "gate:" + op.Gate, Call: true})
			<-r.gate(op.Gate)
			r.rec(Event{Who: "h", Op: "gate:" + op.Gate})
		case "gatesoft": // gate that opens by itself after a short while (the scenario behind it may be impossible)
			r.rec(Event{Who: "h", Op: "gate:" + op.Gate, Call: true})
			select {
			case <-r.gate(op.Gate):
			case <-time.After(60 * time.Millisecond):
			}
			r.rec(Event{Who: "h", Op: "gate:" + op.Gate})
		case "sleepctx": // works for a while (Gate holds the duration) unless the context ends first
			d, _ := time.ParseDuration(op.Gate)
			r.rec(Event{Who: "h", Op: "sleepctx", Call: true})
			select {
			case <-time.After(d):
			case <-ctx.Done():
			}
			r.rec(Event{Who: "h", Op: "sleepctx", Err: ctx.Err()})
		case "gatectx": // gate that a context end also opens
			r.rec(Event{Who: "h", Op: "gate:" + op.Gate, Call: true})
			select {
			case <-r.gate(op.Gate):
			case <-ctx.Done():
			}
			r.rec(Event{Who: "h", Op: "gate:" + op.Gate})
		case "signal":
			r.Release(op.Gate)
		case "waitctx":
			r.rec(Event{Who: "h", Op: "waitctx", Call: true})
			<-ctx.Done()
			r.rec(Event{Who: "h", Op: "waitctx", Err: ctx.Err()})
		case "spawn-recv":
			// a reader goroutine of the handler that keeps receiving, also after the handler returned; its
			// receives must come to an end (with an error) once the handler has returned
			if stream == nil {
				continue
			}
			go func() {
				for n := 0; n < recvAllLimit; n++ {
					var err error
					r.rec(Event{Who: "hr", Op: "bg-recv", Call: true})
					pan := guard(func() { err = stream.RecvMsg(new(tpb.Message)) })
					r.rec(Event{Who: "hr", Op: "bg-recv", Err: err, Pan: pan})
					if err != nil || pan != "" {
						return
					}
				}
			}()
		case "bg-pusher":
			// a helper goroutine of the handler that pushes copies of the message; the handler does NOT wait for it
			// (it may be blocked inside SendMsg when the handler returns; its sends end with an error after that)
			if stream == nil {
				continue
			}
			msg := op.Msg
			go func() {
				for j := 0; j < 4; j++ {
					r.rec(Event{Who: "hb", Op: "send", Call: true, Msg: msg})
					var err error
					pan := guard(func() { err = stream.SendMsg(msg) })
					r.rec(Event{Who: "hb", Op: "send", Msg: msg, Err: err, Pan: pan})
					if err != nil || pan != "" {
						return
					}
				}
			}()
		case "bg-sends":
			// a second goroutine of the handler pushes three copies of the message while the handler itself goes
			// on with its next operations (a full-duplex handler); the handler waits for it before returning
			if stream == nil {
				continue
			}
			msg := op.Msg
			r.bg.Add(1)
			go func() {
				defer r.bg.Done()
				for j := 0; j < 3; j++ {
					r.rec(Event{Who: "hb", Op: "send", Call: true, Msg: msg})
					var err error
					pan := guard(func() { err = stream.SendMsg(msg) })
					r.rec(Event{Who: "hb", Op: "send", Msg: msg, Err: err, Pan: pan})
					if err != nil || pan != "" {
						return
					}
				}
			}()
		default:
			panic("bad handler op " + op.Op)
		}
	}
	r.bg.Wait()
}

// ---------------------------------------------------------------------------
// Client actor

// Exec runs the client side of the script on cc and waits (bounded by
// watchdog) for client actors and the handler. It returns false if the
// watchdog fired; the goroutine dump is then in dump.
func (r *Run) Exec(cc grpc.ClientConnInterface, parent context.Context, watchdog time.Duration) (completed bool, dump string) {
	if parent == nil {
		parent = context.Background()
	}
	md := metadata.MD{}
	for k, v := range r.S.ReqMD {
		md[k] = append([]string(nil), v...)
	}
	md.Set(runKey, r.ID)
	r.OutMD = md
	// callers attach metadata in two ways: as a whole (NewOutgoingContext) and pair by pair
	// (AppendToOutgoingContext, e.g. by interceptors); every key of the script takes one of the two routes
	base, appended := md, []string(nil)
	if !r.S.NoAppendedMD && len(r.S.ReqMD) > 1 {
		base = metadata.MD{}
		keys := make([]string, 0, len(md))
		for k := range md {
			keys = append(keys, k)
		}
		sort.Strings(keys)
		for i, k := range keys {
			switch {
			case k != runKey && i%2 == 1 && len(md[k]) >= 2 && len(k)%2 == 0:
				// one key fed from both sides (an interceptor appending to what the application set): the values
				// arrive in one list, the application's first
				base[k] = md[k][:1:1]
				for _, v := range md[k][1:] {
					appended = append(appended, k, v)
				}
			case k != runKey && i%2 == 1:
				for _, v := range md[k] {
					appended = append(appended, k, v)
				}
			default:
				base[k] = md[k]
			}
		}
		r.OutMD = base
	}
	octx := metadata.NewOutgoingContext(parent, base)
	if len(appended) > 0 {
		octx = metadata.AppendToOutgoingContext(octx, appended...)
	}
	if r.S.CallTimeout > 0 {
		// a caller with a (distant) deadline: the call is otherwise the same
		var tcancel context.CancelFunc
		octx, tcancel = context.WithTimeout(octx, r.S.CallTimeout)
		defer tcancel()
	}
	ctx, cancel := context.WithCancel(octx)
	r.Ctx, r.Cancel = ctx, cancel

	var opts []grpc.CallOption
	for i := 0; i < r.S.NHdrOpt; i++ {
		t := new(metadata.MD)
		r.HdrTargets = append(r.HdrTargets, t)
		opts = append(opts, grpc.Header(t))
	}
	for i := 0; i < r.S.NTrlOpt; i++ {
		t := new(metadata.MD)
		r.TrlTargets = append(r.TrlTargets, t)
		opts = append(opts, grpc.Trailer(t))
	}
	if r.S.PeerOpt {
		r.PeerTarget = new(peer.Peer)
		opts = append(opts, grpc.Peer(r.PeerTarget))
	}
	opts = append(opts, r.S.ExtraOpts...)
	if r.S.CredMD != nil {
		opts = append(opts, grpc.PerRPCCredentials(&testCreds{md: r.S.CredMD}))
	}

	done := r.ClientDone
	go func() {
		defer close(done)
		if r.S.Kind == Unary {
			r.execUnary(cc, ctx, opts)
		} else {
			r.execStream(cc, ctx, opts)
		}
	}()
	timer := time.NewTimer(watchdog)
	defer timer.Stop()
	defer noteRun(r)
	select {
	case <-done:
	case <-timer.C:
		return false, allStacks()
	}
	if r.S.CancelAfterClient {
		cancel()
	}
	// the handler may outlive the client; wait for it too (if it started)
	if r.hStarted.Load() > 0 {
		select {
		case <-r.handlerDone:
		case <-timer.C:
			return false, allStacks()
		}
	}
	return true, ""
}

// outgoingCtx builds the caller context (request metadata incl. the run id)
// for code that drives a stream without Exec.
func outgoingCtx(r *Run) context.Context {
	md := metadata.MD{}
	for k, v := range r.S.ReqMD {
		md[k] = append([]string(nil), v...)
	}
	md.Set(runKey, r.ID)
	ctx, cancel := context.WithCancel(metadata.NewOutgoingContext(context.Background(), md))
	r.Ctx, r.Cancel = ctx, cancel
	return ctx
}

func allStacks() string {
	buf := make([]byte, 1<<20)
	for {
		n := runtime.Stack(buf, true)
		if n < len(buf) {
			return string(buf[:n])
		}
		buf = make([]byte, 2*len(buf))
	}
}

func (r *Run) noteObj(list *[]*tpb.Message, m *tpb.Message) {
	r.objMu.Lock()
	*list = append(*list, m)
	r.objMu.Unlock()
}

// recvd handles a successfully received object: log snapshot, callbacks, optional scribble.
func (r *Run) recvd(handler bool, m *tpb.Message) *tpb.Message {
	if handler {
		r.noteObj(&r.HRecvObjs, m)
		if r.OnHRecv != nil {
			r.OnHRecv(m)
		}
	} else {
		r.noteObj(&r.CRecvObjs, m)
		if r.OnRecv != nil {
			r.OnRecv(m)
		}
	}
	if r.S.MutateAfterRecv {
		snap := proto.Clone(m).(*tpb.Message)
		mutateMsg(m)
		return snap
	}
	if r.S.ReuseDest {
		return proto.Clone(m).(*tpb.Message)
	}
	return m
}

func (r *Run) newHDest() *tpb.Message {
	if r.HDest != nil {
		return r.HDest()
	}
	if r.S.ReuseDest {
		// one message value for all receives of this side, as applications that avoid allocations do
		if r.hReuse == nil {
			r.hReuse = new(tpb.Message)
		}
		return r.hReuse
	}
	return new(tpb.Message)
}

// mdArg / scribbleMD: with ReuseMD the handler passes a private copy of the metadata to the
// library and overwrites that map as soon as the call has returned (legal re-use of the map).
func (r *Run) mdArg(md metadata.MD) metadata.MD {
	if !r.S.ReuseMD {
		return md
	}
	return md.Copy()
}

func (r *Run) scribbleMD(md metadata.MD) {
	if !r.S.ReuseMD {
		return
	}
	for k, vs := range md {
		for i := range vs {
			vs[i] = "overwritten-after-the-call"
		}
		md[k] = append(vs, "appended-after-the-call")
	}
	md["added-after-the-call"] = []string{"x"}
}

// checkLead: done = sends completed by this sender (including the one that
// just returned), started = receives the peer had started when it returned.
// Reading "started" after the return can only make the bound looser.
func (r *Run) checkLead(who string, done, started int64) {
	if done > started+1 {
		r.leadMu.Lock()
		r.Lead = append(r.Lead, fmt.Sprintf("%s completed %d sends while its peer had started only %d receives", who, done, started))
		r.leadMu.Unlock()
	}
}

// sendArg returns the object to hand to the library and the snapshot to log.
// With MutateAfterSend the object is a private deep copy that the sender
// scribbles over after the send returned.
func (r *Run) sendArg(m *tpb.Message) (msg, snap *tpb.Message) {
	if !r.S.MutateAfterSend || m == nil {
		return m, m
	}
	return proto.Clone(m).(*tpb.Message), m
}

// mutateMsg overwrites every part of m in place (same backing arrays, same
// maps, same nested objects).
func mutateMsg(m *tpb.Message) {
	if m == nil {
		return
	}
	for i := range m.Payload {
		m.Payload[i] = 0xEE
	}
	m.Payload = append(m.Payload, "MUTATED"...)
	m.Count ^= 0x5a5a5a
	m.Code = 424242
	for k, v := range m.Headers {
		for i := range v {
			v[i] = 0xEE
		}
		m.Headers[k] = append(v, 'M')
	}
	if m.Headers != nil {
		m.Headers["mutated"] = []byte("M")
	}
	for k := range m.Trailers {
		delete(m.Trailers, k)
	}
	for _, d := range m.ErrorDetails {
		d.TypeUrl = "mutated"
		for i := range d.Value {
			d.Value[i] = 0xEE
		}
	}
	if len(m.ErrorDetails) > 0 {
		m.ErrorDetails = m.ErrorDetails[:len(m.ErrorDetails)-1]
	}
	m.ProtoReflect().SetUnknown(nil)
}

func (r *Run) newDest() *tpb.Message {
	if r.Dest != nil {
		return r.Dest()
	}
	if r.S.ReuseDest {
		if r.cReuse == nil {
			r.cReuse = new(tpb.Message)
		}
		return r.cReuse
	}
	return new(tpb.Message)
}

func (r *Run) execUnary(cc grpc.ClientConnInterface, ctx context.Context, opts []grpc.CallOption) {
	resp := r.newDest()
	req, snap := r.sendArg(r.S.UnaryReq)
	r.noteObj(&r.CSentObjs, req)
	r.rec(Event{Who: "cs", Op: "invoke", Call: true, Msg: snap})
	var err error
	pan := guard(func() { err = cc.Invoke(ctx, Unary.Method(), req, resp, opts...) })
	if r.S.MutateAfterSend {
		mutateMsg(req)
	}
	if err == nil && pan == "" {
		r.UnaryResp = resp
		resp = r.recvd(false, resp)
		r.rec(Event{Who: "cs", Op: "invoke", Msg: resp, Pan: pan})
	} else {
		r.rec(Event{Who: "cs", Op: "invoke", Err: err, Pan: pan})
	}
}

func (r *Run) execStream(cc grpc.ClientConnInterface, ctx context.Context, opts []grpc.CallOption) {
	var st grpc.ClientStream
	var err error
	sd := r.S.Kind.StreamDesc()
	if r.streamDescOverride != nil {
		sd = r.streamDescOverride
	}
	pan := guard(func() {
		st, err = cc.NewStream(ctx, sd, r.S.Kind.Method(), opts...)
		if r.AfterOpen != nil {
			r.AfterOpen()
		}
	})
	r.rec(Event{Who: "cs", Op: "newstream", Err: err, Pan: pan})
	if err != nil || pan != "" || st == nil {
		r.NewStreamErr = err
		return
	}
	r.Stream = st
	var wg sync.WaitGroup
	sendDone := make(chan struct{})
	wg.Add(1)
	go func() {
		defer wg.Done()
		defer close(sendDone)
		r.runClientOps("cs", st, r.S.Sender)
	}()
	if len(r.S.Receiver) > 0 {
		wg.Add(1)
		go func() {
			defer wg.Done()
			if r.S.RecvAfterSend {
				<-sendDone
			}
			r.runClientOps("cr", st, r.S.Receiver)
		}()
	}
	wg.Wait()
	runtime.KeepAlive(st)
}

func (r *Run) runClientOps(who string, st grpc.ClientStream, ops []Op) {
	stopSend := false
	for _, op := range ops {
		switch op.Op {
		case "send":
			msg, snap := r.sendArg(op.Msg)
			r.noteObj(&r.CSentObjs, msg)
			r.rec(Event{Who: who, Op: "send", Call: true, Msg: snap})
			var err error
			pan := guard(func() { err = st.SendMsg(msg) })
			if err == nil && pan == "" {
				r.checkLead("client", r.CSendDone.Add(1), r.HRecvStarted.Load())
			}
			if r.S.MutateAfterSend {
				mutateMsg(msg)
			}
			r.rec(Event{Who: who, Op: "send", Msg: snap, Err: err, Pan: pan})
		case "send-until-eof":
			// like "send", but the actor stops sending once a send has failed
			if stopSend {
				continue
			}
			msg, snap := r.sendArg(op.Msg)
			r.rec(Event{Who: who, Op: "send", Call: true, Msg: snap})
			var err error
			pan := guard(func() { err = st.SendMsg(msg) })
			r.rec(Event{Who: who, Op: "send", Msg: snap, Err: err, Pan: pan})
			if err != nil || pan != "" {
				stopSend = true
			}
		case "close":
			r.rec(Event{Who: who, Op: "close", Call: true})
			var err error
			pan := guard(func() { err = st.CloseSend() })
			r.rec(Event{Who: who, Op: "close", Err: err, Pan: pan})
		case "recv":
			m := r.newDest()
			r.RecvStarted.Add(1)
			r.rec(Event{Who: who, Op: "recv", Call: true})
			var err error
			pan := guard(func() { err = st.RecvMsg(m) })
			if err != nil || pan != "" {
				m = nil
			} else {
				m = r.recvd(false, m)
			}
			r.rec(Event{Who: who, Op: "recv", Msg: m, Err: err, Pan: pan})
		case "recv-wrong":
			// a receive that fails on the client's own side: the destination is a message of another type, which
			// the channel's cloner refuses (as any Cloner may refuse a copy). It counts as a started receive.
			r.RecvStarted.Add(1)
			r.rec(Event{Who: who, Op: "recv-wrong", Call: true})
			var err error
			pan := guard(func() { err = st.RecvMsg(new(emptypb.Empty)) })
			r.rec(Event{Who: who, Op: "recv-wrong", Err: err, Pan: pan})
		case "recvall": // receive until an error (incl. io.EOF)
			for n := 0; ; n++ {
				if n > recvAllLimit {
					r.rec(Event{Who: who, Op: "recv", Pan: fmt.Sprintf("endless stream: more than %d messages received without reaching the end", recvAllLimit)})
					break
				}
				m := r.newDest()
				r.RecvStarted.Add(1)
				r.rec(Event{Who: who, Op: "recv", Call: true})
				var err error
				pan := guard(func() { err = st.RecvMsg(m) })
				if err != nil || pan != "" {
					m = nil
				} else {
					m = r.recvd(false, m)
				}
				r.rec(Event{Who: who, Op: "recv", Msg: m, Err: err, Pan: pan})
				if err != nil || pan != "" {
					break
				}
			}
		case "header":
			// Header() may have to take one frame off the stream, but only once: later calls
			// must not consume anything, so only the first counts as a started receive
			if r.headerCounted.CompareAndSwap(false, true) {
				r.RecvStarted.Add(1)
			}
			r.rec(Event{Who: who, Op: "header", Call: true})
			var md metadata.MD
			var err error
			pan := guard(func() { md, err = st.Header() })
			r.rec(Event{Who: who, Op: "header", MD: md.Copy(), Err: err, Pan: pan})
		case "trailer":
			var md metadata.MD
			pan := guard(func() { md = st.Trailer() })
			r.rec(Event{Who: who, Op: "trailer", MD: md.Copy(), Pan: pan})
		case "cancel":
			r.rec(Event{Who: who, Op: "cancel"})
			r.Cancel()
		case "gate":
			r.rec(Event{Who: who, Op: "gate:" + op.Gate, Call: true})
			<-r.gate(op.Gate)
			r.rec(Event{Who: who, Op: "gate:" + op.Gate})
		case "gatesoft":
			r.rec(Event{Who: who, Op: "gate:" + op.Gate, Call: true})
			select {
			case <-r.gate(op.Gate):
			case <-time.After(60 * time.Millisecond):
			}
			r.rec(Event{Who: who, Op: "gate:" + op.Gate})
		case "signal":
			r.Release(op.Gate)
		default:
			panic("bad client op " + op.Op)
		}
	}
}

// Outcome is the terminal client-visible result of a run.
type Outcome struct {
	OK     bool // nil from Invoke / io.EOF at end of stream
	Err    error
	Seen   bool // a terminal result was observed at all
	Panics []string
}

// ClientOutcome derives the terminal result: for unary the Invoke result, for
// single-response streams the (first) recv result, for response streams the
// first non-nil recv error.
func (r *Run) ClientOutcome() Outcome {
	var o Outcome
	evs := r.Events()
	for _, e := range evs {
		if e.Pan != "" {
			o.Panics = append(o.Panics, e.Who+"."+e.Op+": "+e.Pan)
		}
	}
	if r.S.Kind == Unary {
		for _, e := range evs {
			if e.Who == "cs" && e.Op == "invoke" && !e.Call {
				o.Seen, o.Err, o.OK = true, e.Err, e.Err == nil
			}
		}
		return o
	}
	for _, e := range evs {
		if e.Op == "newstream" && e.Err != nil {
			o.Seen, o.Err = true, e.Err
			return o
		}
	}
	for _, e := range evs {
		if e.Op != "recv" || e.Call || (e.Who != "cs" && e.Who != "cr") {
			continue
		}
		if !r.S.Kind.ServerStreams() {
			// single response: the first receive decides
			o.Seen, o.Err, o.OK = true, e.Err, e.Err == nil
			return o
		}
		if e.Err != nil {
			o.Seen, o.Err, o.OK = true, e.Err, e.Err == io.EOF
			return o
		}
	}
	return o
}

// HandlerReturn gives the error the handler returned (and whether it did).
func (r *Run) HandlerReturn() (err error, returned bool) {
	for _, e := range r.Events() {
		if e.Who == "h" && e.Op == "return" {
			return e.Err, true
		}
	}
	return nil, false
}
