package props

import (
	"context"
	"fmt"
	"math/rand"
	"net/http/httptest"
	"path"
	"reflect"
	"sort"
	"strings"
	implA2 "verifharness/props/twins/a/impl"
	implB2 "verifharness/props/twins/b/impl"

	"github.com/fullstorydev/grpchan"
	"github.com/fullstorydev/grpchan/httpgrpc"
	"github.com/fullstorydev/grpchan/inprocgrpc"
	"google.golang.org/grpc"

	"verifharness/core"
)

func init() { core.Register("C15", checkC15) }

type ifaceA interface{ A() }
type ifaceB interface{ B() }
type ifaceAB interface {
	A()
	B()
}
type implA struct{ id int }
type implB struct{ id int }
type implAB struct{ id int }

func (*implA) A()  {}
func (*implB) B()  {}
func (*implAB) A() {}
func (*implAB) B() {}

type valImplA struct{ id int } // value receiver: both T and *T implement ifaceA

// right method names, wrong signatures: implement none of the interfaces
type wrongSigA struct{}
type wrongSigAB struct{}

func (*wrongSigA) A(int)        {}
func (*wrongSigAB) A() error    { return nil }
func (*wrongSigAB) B(...string) {}

func (valImplA) A() {}

// handler values of types that cannot be compared with == (legitimate: a registry stores handlers, it has no need
// to compare them): a struct registered by value that holds a map, and a function type with methods
type mapImplA struct{ tags map[string]int }

func (mapImplA) A() {}

type funcImplAB func() int

func (funcImplAB) A() {}
func (funcImplAB) B() {}

// sameHandler compares two handler values without ever using == on an uncomparable dynamic type.
func sameHandler(a, b interface{}) bool {
	if a == nil || b == nil {
		return a == nil && b == nil
	}
	ta, tb := reflect.TypeOf(a), reflect.TypeOf(b)
	if ta != tb {
		return false
	}
	if ta.Comparable() {
		return a == b
	}
	if ta.Kind() == reflect.Func {
		return reflect.ValueOf(a).Pointer() == reflect.ValueOf(b).Pointer()
	}
	return reflect.DeepEqual(a, b)
}

var handlerTypes = []interface{}{(*ifaceA)(nil), (*ifaceB)(nil), (*ifaceAB)(nil)}

func genIdent(r *rand.Rand) string {
	first := "ABCDEFGHIJKLMNOPQRSTUVWXYZabcdefghijklmnopqrstuvwxyz"
	rest := first + "0123456789_"
	n := 1 + r.Intn(10)
	b := []byte{first[r.Intn(len(first))]}
	for i := 1; i < n; i++ {
		b = append(b, rest[r.Intn(len(rest))])
	}
	return string(b)
}

func nopUnary(srv interface{}, ctx context.Context, dec func(interface{}) error, interceptor grpc.UnaryServerInterceptor) (interface{}, error) {
	return nil, nil
}
func nopStream(srv interface{}, stream grpc.ServerStream) error { return nil }

// genServiceDesc makes a random service description with distinct method names.
func genServiceDesc(r *rand.Rand, name string, ht interface{}) *grpc.ServiceDesc {
	sd := &grpc.ServiceDesc{ServiceName: name, HandlerType: ht}
	used := map[string]bool{}
	fresh := func() string {
		for {
			n := genIdent(r)
			if !used[n] {
				used[n] = true
				return n
			}
		}
	}
	nm, ns := r.Intn(7), r.Intn(7)
	for i := 0; i < nm; i++ {
		sd.Methods = append(sd.Methods, grpc.MethodDesc{MethodName: fresh(), Handler: nopUnary})
	}
	for i := 0; i < ns; i++ {
		sd.Streams = append(sd.Streams, grpc.StreamDesc{StreamName: fresh(), Handler: nopStream, ClientStreams: r.Intn(2) == 0, ServerStreams: r.Intn(2) == 0})
	}
	switch r.Intn(5) {
	case 0:
		sd.Metadata = "file" + fmt.Sprint(r.Intn(100)) + ".proto"
	case 1:
		sd.Metadata = r.Intn(1000)
	case 2:
		sd.Metadata = []string{"a", "b"}
	case 3:
		sd.Metadata = struct{ X int }{r.Intn(9)}
	}
	return sd
}

func goodHandler(r *rand.Rand, ht interface{}) interface{} {
	switch ht.(type) {
	case *ifaceA:
		switch r.Intn(7) {
		case 6:
			return &implA2.H{N: r.Int()} // (another package has a type that prints the same name and lacks A)
		case 4:
			return mapImplA{map[string]int{"id": r.Int()}}
		case 5:
			n := r.Int()
			return funcImplAB(func() int { return n })
		case 0:
			return &implAB{r.Int()}
		case 1:
			return valImplA{r.Int()}
		case 2:
			return &valImplA{r.Int()}
		}
		return &implA{r.Int()}
	case *ifaceB:
		if r.Intn(3) == 0 {
			return &implAB{r.Int()}
		}
		if r.Intn(5) == 0 {
			return &implB2.H{N: r.Int()}
		}
		return &implB{r.Int()}
	default:
		if r.Intn(5) == 0 {
			n := r.Int()
			return funcImplAB(func() int { return n })
		}
		return &implAB{r.Int()}
	}
}

func badHandler(r *rand.Rand, ht interface{}) interface{} {
	switch ht.(type) {
	case *ifaceA:
		return pick[interface{}](r, &implB{1}, implA{2}, "not a handler", 42, struct{}{}, &wrongSigA{}, &wrongSigAB{}, &implB2.H{N: 1}, &implB2.H{N: 2}, nil, nil)
	case *ifaceB:
		return pick[interface{}](r, &implA{1}, implB{2}, valImplA{3}, &wrongSigAB{}, &implA2.H{N: 1}, &implA2.H{N: 2})
	default:
		return pick[interface{}](r, &implA{1}, &implB{2}, implAB{3}, &wrongSigAB{}, &wrongSigA{})
	}
}

type regEntry struct {
	desc    *grpc.ServiceDesc
	handler interface{}
}

type registrar interface {
	RegisterService(*grpc.ServiceDesc, interface{})
}

type infoer interface {
	GetServiceInfo() map[string]grpc.ServiceInfo
}

func methodSet(ms []grpc.MethodInfo) string {
	var s []string
	for _, m := range ms {
		s = append(s, fmt.Sprintf("%s/%v/%v", m.Name, m.IsClientStream, m.IsServerStream))
	}
	sort.Strings(s)
	return strings.Join(s, ",")
}

func diffInfo(got, want map[string]grpc.ServiceInfo) string {
	if len(got) != len(want) {
		return fmt.Sprintf("service count: got %d want %d", len(got), len(want))
	}
	for name, w := range want {
		g, ok := got[name]
		if !ok {
			return "missing service " + name
		}
		if methodSet(g.Methods) != methodSet(w.Methods) {
			return fmt.Sprintf("service %s methods: got {%s} want {%s}", name, methodSet(g.Methods), methodSet(w.Methods))
		}
		if !reflect.DeepEqual(g.Metadata, w.Metadata) {
			return fmt.Sprintf("service %s metadata: got %#v want %#v", name, g.Metadata, w.Metadata)
		}
	}
	return ""
}

func tryRegister(t registrar, d *grpc.ServiceDesc, h interface{}) (panicked bool, val interface{}) {
	defer func() {
		if p := recover(); p != nil {
			panicked, val = true, p
		}
	}()
	t.RegisterService(d, h)
	return false, nil
}

func checkC15(e *core.Env) {
	curEnv = e
	e.SetRule("random histories (<=40 ops) of register (fresh / duplicate name with same or different handler and descriptor / ill-typed handler) , query (registered / unknown / near-miss names), ForEach and GetServiceInfo over random service descriptors, executed on HandlerMap (directly and through a WithInterceptor view), inprocgrpc.Channel and httpgrpc.Server (after each refusal the server is asked for the refused methods: 404), mirrored into a sequential model and a real grpc.Server; distinct = distinct op-kind sequences")
	e.Assume("registries are used from one goroutine (documented as not concurrency-safe)")
	n := e.N(4000, 60000)
	e.Cases("history", n, func(i int, r *rand.Rand) {
		// the history runs in a goroutine of its own: a registry operation that never returns (say, a lock left
		// held by a refused registration) is reported with its goroutine dump instead of stopping the run
		if c15Hung[i%4] {
			e.Count("histories_skipped_after_hang", 1)
			return
		}
		done := make(chan struct{})
		tname := ""
		var trace []string
		go c15History(e, i, r, &tname, &trace, done)
		if finished, stuck, dump := waitDoneOrStuck(done, watchdog); !finished {
			if stuck {
				c15Hung[i%4] = true
				e.Violate("registry/"+tname+"/never-returns", "a registry operation never returned: the goroutine running this history is parked for good in "+lastOf(trace), map[string]any{"target": tname, "ops": trace, "goroutines": trunc(dump, 12000)})
			} else {
				e.Inconclusive("C15 history %d on %s did not finish within the watchdog", i, tname)
			}
		}
	})
}

func appendTrace(t *[]string, s string) []string {
	*t = append(*t, s)
	return *t
}

// registrars on which an operation never returned are not used again in this run (every further history on
// them would only wait for the same verdict)
var c15Hung = map[int]bool{}

func lastOf(trace []string) string {
	if len(trace) == 0 {
		return "(no operation yet)"
	}
	return trace[len(trace)-1]
}

func c15History(e *core.Env, i int, r *rand.Rand, tnameOut *string, traceOut *[]string, done chan struct{}) {
	defer close(done)
	{
		target := i % 4
		var reg registrar
		var hm grpchan.HandlerMap
		var hsrv *httpgrpc.Server
		hbase := ""
		viaView := false
		tname := ""
		switch target {
		case 3:
			// the same map, populated through a decorating view: descriptors are decorated copies, everything
			// else (names, handler, metadata, methods, refusals) is as for direct registration
			hm = grpchan.HandlerMap{}
			reg, tname, viaView = grpchan.WithInterceptor(hm, passThroughUnary, passThroughStream), "HandlerMap-via-WithInterceptor", true
		case 0:
			hm = grpchan.HandlerMap{}
			reg, tname = hm, "HandlerMap"
		case 1:
			reg, tname = &inprocgrpc.Channel{}, "inprocgrpc.Channel"
		case 2:
			hbase = pick(r, "/", "/api/", "/a/b")
			hsrv = httpgrpc.NewServer(httpgrpc.WithBasePath(hbase))
			reg, tname = hsrv, "httpgrpc.Server"
		}
		*tnameOut = tname
		ref := grpc.NewServer()
		model := map[string]regEntry{}
		var names []string
		var trace []string
		nops := 1 + r.Intn(40)
		fail := func(sig, msg string) {
			e.Violate("registry/"+tname+"/"+sig, msg, map[string]any{"target": tname, "ops": trace})
		}
		for k := 0; k < nops; k++ {
			switch op := r.Intn(10); {
			case op < 4: // register fresh
				name := "pkg" + fmt.Sprint(r.Intn(4)) + "." + genIdent(r)
				if _, dup := model[name]; dup {
					continue
				}
				ht := handlerTypes[r.Intn(len(handlerTypes))]
				d := genServiceDesc(r, name, ht)
				if r.Intn(6) == 0 {
					h := badHandler(r, ht)
					trace = appendTrace(traceOut, fmt.Sprintf("register-illtyped %s %T", name, h))
					if p, _ := tryRegister(reg, d, h); !p {
						fail("illtyped-accepted", fmt.Sprintf("handler of type %T registered for interface %v without panic", h, reflect.TypeOf(ht).Elem()))
						return
					}
					if m := servedMethod(hsrv, hbase, d, nil); m != "" {
						fail("refused-but-served", "the ill-typed registration was refused, yet the server answers requests for "+m)
						return
					}
					continue
				}
				h := goodHandler(r, ht)
				if hsrv != nil && r.Intn(3) == 0 {
					// clients may ask for a service before it is registered (a server that comes up step by step):
					// not there yet, and there once the registration has been accepted (checked at the end)
					trace = appendTrace(traceOut, "probe-before-register "+name)
					if m := servedMethod(hsrv, hbase, d, nil); m != "" {
						fail("served-before-registered", "the server answers requests for "+m+" of "+name+", which has not been registered")
						return
					}
				}
				trace = appendTrace(traceOut, fmt.Sprintf("register %s (%d unary, %d streams) %T", name, len(d.Methods), len(d.Streams), h))
				if p, v := tryRegister(reg, d, h); p {
					fail("valid-refused", fmt.Sprintf("valid registration panicked: %v", v))
					return
				}
				ref.RegisterService(d, h)
				model[name] = regEntry{d, h}
				names = append(names, name)
			case op < 6: // duplicate
				if len(names) == 0 {
					continue
				}
				name := names[r.Intn(len(names))]
				old := model[name]
				d, h := old.desc, old.handler
				variant := r.Intn(3)
				if variant != 0 { // different descriptor under the same name
					d = genServiceDesc(r, name, old.desc.HandlerType)
				}
				if variant == 2 || r.Intn(2) == 0 {
					if variant != 1 {
						h = goodHandler(r, old.desc.HandlerType)
					}
				}
				trace = appendTrace(traceOut, fmt.Sprintf("register-duplicate %s sameDesc=%v sameHandler=%v", name, d == old.desc, sameHandler(h, old.handler)))
				if p, _ := tryRegister(reg, d, h); !p {
					fail("duplicate-accepted", fmt.Sprintf("second registration for %s (same descriptor=%v, same handler=%v) did not panic", name, d == old.desc, sameHandler(h, old.handler)))
					return
				}
				if m := servedMethod(hsrv, hbase, d, old.desc); m != "" {
					fail("refused-but-served", "the second registration of "+name+" was refused, yet the server now answers requests for its method "+m)
					return
				}
			case op < 8 && hm != nil: // query
				var q string
				if len(names) > 0 && r.Intn(3) != 0 {
					q = names[r.Intn(len(names))]
					if r.Intn(4) == 0 {
						q = pick(r, q+"x", q[:len(q)-1], strings.ToUpper(q), "/"+q, q+"/", " "+q)
					}
				} else {
					q = pick(r, "", "nope", "pkg0.", ".")
				}
				trace = appendTrace(traceOut, "query "+q)
				d, h := hm.QueryService(q)
				want, ok := model[q]
				if ok && (!sameDesc(d, want.desc, viaView) || !sameHandler(h, want.handler)) {
					fail("query-wrong", fmt.Sprintf("QueryService(%q) returned (%p,%v) want (%p,%v)", q, d, h, want.desc, want.handler))
					return
				}
				if !ok && (d != nil || h != nil) {
					fail("query-phantom", fmt.Sprintf("QueryService(%q) returned (%v,%v) for a name never registered", q, d, h))
					return
				}
			case op == 8 && hm != nil: // iterate
				trace = appendTrace(traceOut, "foreach")
				seen := map[string]int{}
				bad := ""
				hm.ForEach(func(d *grpc.ServiceDesc, h interface{}) {
					seen[d.ServiceName]++
					if w, ok := model[d.ServiceName]; !ok || !sameDesc(d, w.desc, viaView) || !sameHandler(w.handler, h) {
						bad = d.ServiceName
					}
				})
				if bad != "" {
					fail("foreach-wrong", "ForEach visited an entry that was not registered like that: "+bad)
					return
				}
				for nme := range model {
					if seen[nme] != 1 {
						fail("foreach-count", fmt.Sprintf("ForEach visited %s %d times", nme, seen[nme]))
						return
					}
				}
				if len(seen) != len(model) {
					fail("foreach-count", fmt.Sprintf("ForEach visited %d services, %d registered", len(seen), len(model)))
					return
				}
			default: // info
				trace = appendTrace(traceOut, "info")
				got := infoSource(reg, hm).GetServiceInfo()
				if d := diffInfo(got, ref.GetServiceInfo()); d != "" {
					fail("info-differs", "GetServiceInfo differs from grpc.Server: "+d)
					return
				}
				// the result is a snapshot: damaging it must not affect later calls
				how := r.Intn(4)
				for k2, v := range got {
					for j := range v.Methods {
						v.Methods[j].Name = "clobbered"
					}
					switch how {
					case 0: // emptied
						delete(got, k2)
					case 1: // same size, other names
						delete(got, k2)
						got[k2+".renamed-by-the-caller"] = v
					case 2: // same names, trimmed
						v.Methods, v.Metadata = nil, "cleared by the caller"
						got[k2] = v
					}
				}
			}
		}
		// every method of every accepted registration is dispatched by the HTTP server (whatever the handler
		// then answers, it is not "404, no such method")
		if hsrv != nil {
			for nme, w := range model {
				if m := unservedMethod(hsrv, hbase, w.desc); m != "" {
					fail("registered-but-not-served", "the registration of "+nme+" was accepted, yet the server answers 404 for its method "+m)
					return
				}
			}
		}
		// final comparison
		got := infoSource(reg, hm).GetServiceInfo()
		if d := diffInfo(got, ref.GetServiceInfo()); d != "" {
			fail("info-differs", "final GetServiceInfo differs from grpc.Server: "+d)
		}
		if hm != nil {
			for nme, w := range model {
				if d, h := hm.QueryService(nme); !sameDesc(d, w.desc, viaView) || !sameHandler(h, w.handler) {
					fail("query-wrong", "final QueryService("+nme+") lost or changed the registration")
				}
			}
		}
		var kinds []string
		for _, t := range trace {
			kinds = append(kinds, strings.SplitN(t, " ", 2)[0])
		}
		e.Eval(tname+"|"+strings.Join(kinds, ","), len(model) > 0)
		e.Count("ops", int64(len(trace)))
		if i < 3 {
			e.Sample(map[string]any{"target": tname, "ops": trace})
		}
	}
}

// sameDesc: identity for direct registrations; for registrations through a decorating view the stored
// descriptor is a decorated copy that must still describe the same service.
func sameDesc(got, want *grpc.ServiceDesc, viaView bool) bool {
	if !viaView || got == nil || want == nil {
		return got == want
	}
	if got.ServiceName != want.ServiceName || got.HandlerType != want.HandlerType || !reflect.DeepEqual(got.Metadata, want.Metadata) || len(got.Methods) != len(want.Methods) || len(got.Streams) != len(want.Streams) {
		return false
	}
	for i := range want.Methods {
		if got.Methods[i].MethodName != want.Methods[i].MethodName {
			return false
		}
	}
	for i := range want.Streams {
		g, w := got.Streams[i], want.Streams[i]
		if g.StreamName != w.StreamName || g.ClientStreams != w.ClientStreams || g.ServerStreams != w.ServerStreams {
			return false
		}
	}
	return true
}

// servedMethod asks the HTTP server for every method of a refused description that is not also a method
// of the accepted one (nil: none accepted under that name) and returns the first that is not answered 404.
func servedMethod(srv *httpgrpc.Server, base string, refused, accepted *grpc.ServiceDesc) string {
	if srv == nil {
		return ""
	}
	have := map[string]bool{}
	if accepted != nil {
		for _, m := range accepted.Methods {
			have[m.MethodName] = true
		}
		for _, m := range accepted.Streams {
			have[m.StreamName] = true
		}
	}
	probe := func(method, ct string) bool {
		req := httptest.NewRequest("POST", path.Join(base, refused.ServiceName, method), strings.NewReader(""))
		req.Header.Set("Content-Type", ct)
		rec := httptest.NewRecorder()
		guard(func() { srv.ServeHTTP(rec, req) })
		return rec.Code != 404
	}
	for _, m := range refused.Methods {
		if !have[m.MethodName] && probe(m.MethodName, httpgrpc.UnaryRpcContentType_V1) {
			return m.MethodName
		}
	}
	for _, m := range refused.Streams {
		if !have[m.StreamName] && probe(m.StreamName, httpgrpc.StreamRpcContentType_V1) {
			return m.StreamName
		}
	}
	return ""
}

// unservedMethod asks the HTTP server for every method of an accepted description and returns the first that is
// answered 404.
func unservedMethod(srv *httpgrpc.Server, base string, d *grpc.ServiceDesc) string {
	probe := func(method, ct string) bool {
		req := httptest.NewRequest("POST", path.Join(base, d.ServiceName, method), strings.NewReader(""))
		req.Header.Set("Content-Type", ct)
		rec := httptest.NewRecorder()
		guard(func() { srv.ServeHTTP(rec, req) })
		return rec.Code == 404
	}
	for _, m := range d.Methods {
		if probe(m.MethodName, httpgrpc.UnaryRpcContentType_V1) {
			return m.MethodName
		}
	}
	for _, m := range d.Streams {
		if probe(m.StreamName, httpgrpc.StreamRpcContentType_V1) {
			return m.StreamName
		}
	}
	return ""
}

// infoSource: a decorating view has no service info of its own, the registry under it has.
func infoSource(reg registrar, hm grpchan.HandlerMap) infoer {
	if in, ok := reg.(infoer); ok {
		return in
	}
	return hm
}
