// Package impl (one of two packages of that name): its H implements the method A only. The other package's H
// prints the same type name and implements B only.
package impl

type H struct{ N int }

func (*H) A() {}
