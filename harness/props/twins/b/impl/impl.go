// Package impl (one of two packages of that name): its H implements the method B only.
package impl

type H struct{ N int }

func (*H) B() {}
