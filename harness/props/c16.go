package props

import (
	"context"
	"errors"
	"fmt"
	"io"
	"math/rand"
	"net/http"
	"reflect"
	"strings"
	"sync"
	"time"

	"github.com/fullstorydev/grpchan"
	tpb "github.com/fullstorydev/grpchan/grpchantesting"
	"github.com/fullstorydev/grpchan/httpgrpc"
	"github.com/fullstorydev/grpchan/inprocgrpc"
	"google.golang.org/grpc"
	"google.golang.org/grpc/codes"
	"google.golang.org/grpc/metadata"
	"google.golang.org/grpc/status"
	"google.golang.org/protobuf/proto"

	"verifharness/core"
)

func init() { core.Register("C16", checkC16) }

type c16log struct {
	mu  sync.Mutex
	evs []string
}

func (l *c16log) add(format string, a ...any) {
	l.mu.Lock()
	l.evs = append(l.evs, fmt.Sprintf(format, a...))
	l.mu.Unlock()
}
func (l *c16log) take() []string {
	l.mu.Lock()
	defer l.mu.Unlock()
	out := l.evs
	l.evs = nil
	return out
}

type c16Svc struct {
	log       *c16log
	lastReq   *tpb.Message // object the handler received
	lastResp  *tpb.Message
	lastTrail []string // names of the interceptors whose context reached the handler
	retErr    error
}

type c16TrailKey struct{}

func c16Trail(ctx context.Context) []string {
	t, _ := ctx.Value(c16TrailKey{}).([]string)
	return append([]string(nil), t...)
}

// c16CtxStream lets a stream interceptor pass a changed context onward.
type c16CtxStream struct {
	grpc.ServerStream
	ctx context.Context
}

func (s c16CtxStream) Context() context.Context { return s.ctx }

type c16Server interface{ c16() }

func (*c16Svc) c16() {}

func c16Desc(r *rand.Rand, name string) *grpc.ServiceDesc {
	sd := &grpc.ServiceDesc{ServiceName: name, HandlerType: (*c16Server)(nil), Metadata: "c16.proto"}
	nu, ns := r.Intn(4), r.Intn(4)
	if nu+ns == 0 {
		nu = 1
	}
	for i := 0; i < nu; i++ {
		m := fmt.Sprintf("U%d%s", i, genIdent(r))
		full := "/" + name + "/" + m
		sd.Methods = append(sd.Methods, grpc.MethodDesc{MethodName: m, Handler: func(srv interface{}, ctx context.Context, dec func(interface{}) error, interceptor grpc.UnaryServerInterceptor) (interface{}, error) {
			in := new(tpb.Message)
			if err := dec(in); err != nil {
				return nil, err
			}
			s := srv.(*c16Svc)
			h := func(ctx context.Context, req interface{}) (interface{}, error) {
				s.log.add("handler %s", full)
				s.lastReq, _ = req.(*tpb.Message)
				s.lastTrail = c16Trail(ctx)
				if s.retErr != nil {
					return nil, s.retErr
				}
				s.lastResp = &tpb.Message{Payload: []byte("resp:" + full)}
				return s.lastResp, nil
			}
			if interceptor == nil {
				return h(ctx, in)
			}
			return interceptor(ctx, in, &grpc.UnaryServerInfo{Server: srv, FullMethod: full}, h)
		}})
	}
	for i := 0; i < ns; i++ {
		m := fmt.Sprintf("S%d%s", i, genIdent(r))
		full := "/" + name + "/" + m
		cs, ss := r.Intn(2) == 0, r.Intn(2) == 0
		if !cs && !ss {
			ss = true
		}
		sd.Streams = append(sd.Streams, grpc.StreamDesc{StreamName: m, ClientStreams: cs, ServerStreams: ss, Handler: func(srv interface{}, st grpc.ServerStream) error {
			s := srv.(*c16Svc)
			s.log.add("handler %s", full)
			s.lastTrail = c16Trail(st.Context())
			if s.retErr != nil {
				return s.retErr
			}
			for {
				if err := st.RecvMsg(new(tpb.Message)); err != nil {
					break
				}
				if !cs {
					break
				}
			}
			return st.SendMsg(&tpb.Message{Payload: []byte("resp:" + full)})
		}})
	}
	return sd
}

type descSnap struct {
	name    string
	ht      interface{}
	meta    interface{}
	methods []string
	mptr    []uintptr
	streams []string
	sptr    []uintptr
	mSliceP uintptr
	sSliceP uintptr
}

func snapDesc(d *grpc.ServiceDesc) descSnap {
	s := descSnap{name: d.ServiceName, ht: d.HandlerType, meta: d.Metadata}
	for _, m := range d.Methods {
		s.methods = append(s.methods, m.MethodName)
		s.mptr = append(s.mptr, reflect.ValueOf(m.Handler).Pointer())
	}
	for _, m := range d.Streams {
		s.streams = append(s.streams, fmt.Sprintf("%s/%v/%v", m.StreamName, m.ClientStreams, m.ServerStreams))
		s.sptr = append(s.sptr, reflect.ValueOf(m.Handler).Pointer())
	}
	return s
}

// interceptor behaviours
const (
	bPass    = "pass"
	bShort   = "short"   // returns its own result without calling onward
	bFail    = "fail"    // returns an error without calling onward
	bRewrite = "rewrite" // calls onward, then replaces the result
)

type c16Layer struct {
	name          string
	unary, stream bool
	beh           string
}

// the error a failing interceptor returns (chosen per case): a status, or the bare / wrapped context error or
// plain error that deadline, draining and load-shedding interceptors return
var errC16Fail = status.Error(codes.PermissionDenied, "interceptor says no")

var c16FailErrs = []error{
	status.Error(codes.PermissionDenied, "interceptor says no"),
	status.Error(codes.PermissionDenied, "interceptor says no"),
	status.Error(codes.ResourceExhausted, "shedding load"),
	context.DeadlineExceeded,
	context.Canceled,
	fmt.Errorf("interceptor gave up: %w", context.DeadlineExceeded),
	errors.New("interceptor failed without a status"),
}

// c16FailCode: what the caller sees of errC16Fail. A direct call of the handler chain returns the error itself;
// a transport reports it the way a gRPC server does (its status, a context error as Canceled/DeadlineExceeded,
// anything else as Unknown).
func c16FailCode(carrier string) codes.Code {
	if st, ok := status.FromError(errC16Fail); ok {
		return st.Code()
	}
	if carrier == "direct" || carrier == "registry" {
		return status.Code(errC16Fail)
	}
	return status.FromContextError(errC16Fail).Code()
}

func (l c16Layer) unaryInt(log *c16log, seen *[]observed) grpc.UnaryServerInterceptor {
	if !l.unary {
		return nil
	}
	return func(ctx context.Context, req interface{}, info *grpc.UnaryServerInfo, handler grpc.UnaryHandler) (interface{}, error) {
		log.add("enter %s %s", l.name, info.FullMethod)
		*seen = append(*seen, observed{layer: l.name, req: req, server: info.Server, trail: c16Trail(ctx)})
		switch l.beh {
		case bShort:
			log.add("exit %s", l.name)
			return &tpb.Message{Payload: []byte("short:" + l.name)}, nil
		case bFail:
			log.add("exit %s", l.name)
			return nil, errC16Fail
		}
		// what this interceptor passes onward (a changed context and a changed request) is what the next one must get
		ctx = context.WithValue(ctx, c16TrailKey{}, append(c16Trail(ctx), l.name))
		if m, ok := req.(*tpb.Message); ok {
			req = &tpb.Message{Payload: append(append([]byte{}, m.Payload...), []byte("|"+l.name)...)}
		}
		resp, err := handler(ctx, req)
		(*seen)[len(*seen)-1].note = "returned"
		*seen = append(*seen, observed{layer: l.name + "<", resp: resp, err: err})
		log.add("exit %s", l.name)
		if l.beh == bRewrite {
			return &tpb.Message{Payload: []byte("rewritten:" + l.name)}, nil
		}
		return resp, err
	}
}

func (l c16Layer) streamInt(log *c16log, seen *[]observed) grpc.StreamServerInterceptor {
	if !l.stream {
		return nil
	}
	return func(srv interface{}, ss grpc.ServerStream, info *grpc.StreamServerInfo, handler grpc.StreamHandler) error {
		log.add("enter %s %s cs=%v ss=%v", l.name, info.FullMethod, info.IsClientStream, info.IsServerStream)
		*seen = append(*seen, observed{layer: l.name, server: srv, trail: c16Trail(ss.Context())})
		switch l.beh {
		case bShort, bFail:
			// an interceptor that answers by itself, with response metadata, without reading any request
			ss.SetHeader(metadata.Pairs("c16-by", l.name))
			ss.SetTrailer(metadata.Pairs("c16-by", l.name))
			log.add("exit %s", l.name)
			if l.beh == bFail {
				return errC16Fail
			}
			return nil
		}
		ss = c16CtxStream{ss, context.WithValue(ss.Context(), c16TrailKey{}, append(c16Trail(ss.Context()), l.name))}
		err := handler(srv, ss)
		*seen = append(*seen, observed{layer: l.name + "<", err: err})
		log.add("exit %s", l.name)
		if l.beh == bRewrite {
			return status.Error(codes.Aborted, "rewritten:"+l.name)
		}
		return err
	}
}

type observed struct {
	layer  string
	req    interface{}
	resp   interface{}
	err    error
	server interface{}
	note   string
	trail  []string
}

// fakeServerStream serves direct handler calls.
type fakeServerStream struct {
	ctx  context.Context
	in   []*tpb.Message
	sent []*tpb.Message
}

func (f *fakeServerStream) SetHeader(metadata.MD) error  { return nil }
func (f *fakeServerStream) SendHeader(metadata.MD) error { return nil }
func (f *fakeServerStream) SetTrailer(metadata.MD)       {}
func (f *fakeServerStream) Context() context.Context     { return f.ctx }
func (f *fakeServerStream) SendMsg(m interface{}) error {
	f.sent = append(f.sent, m.(*tpb.Message))
	return nil
}
func (f *fakeServerStream) RecvMsg(m interface{}) error {
	if len(f.in) == 0 {
		return io.EOF
	}
	dst := m.(*tpb.Message)
	dst.Reset()
	proto.Merge(dst, f.in[0])
	f.in = f.in[1:]
	return nil
}

// sameIface compares two interface values by identity without panicking on
// uncomparable dynamic types (HandlerMap is a map).
func sameIface(a, b interface{}) bool {
	va, vb := reflect.ValueOf(a), reflect.ValueOf(b)
	if va.Type() != vb.Type() {
		return false
	}
	switch va.Kind() {
	case reflect.Map, reflect.Ptr, reflect.Func, reflect.Chan, reflect.Slice:
		return va.Pointer() == vb.Pointer()
	}
	return a == b
}

func checkC16(e *core.Env) {
	curEnv = e
	e.SetRule("random service descriptors (0..3 unary, 0..3 stream methods, all flag mixes) decorated 0..3 times (InterceptServer directly or through WithInterceptor) with every nil/non-nil unary/stream combination, plus a transport-level interceptor pair, behaviours {pass, short-circuit, fail, rewrite} at one layer; every method is called on carriers {direct handler call, HandlerMap via WithInterceptor, in-process channel, HTTP server or HandleServices mux mounted at /, /api/v1 or /x/}; second phase: chains of 1..4 nested WithInterceptor views with services registered through every level before and after outer views are created, each method run directly and the interceptors entered compared with those of the views below the registration level; oracle: ordered enter/exit/handler log vs the trace computed from the configuration, info fields, pass-through identity, descriptor snapshot before/after; distinct = distinct configurations")
	n := e.N(1500, 25000)
	e.Cases("cfg", n, func(i int, r *rand.Rand) {
		log := &c16log{}
		svc := &c16Svc{log: log}
		orig := c16Desc(r, "c16.Svc"+fmt.Sprint(r.Intn(3)))
		before := snapDesc(orig)
		carrier := []string{"direct", "registry", "inproc", "http"}[i%4]
		var seen []observed
		// layers: decorations (innermost first), then transport level
		nDec := r.Intn(4)
		var decs []c16Layer
		for k := 0; k < nDec; k++ {
			decs = append(decs, c16Layer{name: fmt.Sprintf("D%d", k), unary: r.Intn(3) != 0, stream: r.Intn(3) != 0, beh: bPass})
		}
		tl := c16Layer{name: "T", unary: r.Intn(2) == 0, stream: r.Intn(2) == 0, beh: bPass}
		// one misbehaving layer sometimes
		all := append(append([]*c16Layer{}, &tl), func() []*c16Layer {
			var p []*c16Layer
			for k := range decs {
				p = append(p, &decs[k])
			}
			return p
		}()...)
		if r.Intn(2) == 0 {
			all[r.Intn(len(all))].beh = pick(r, bShort, bFail, bRewrite)
		}
		errC16Fail = c16FailErrs[r.Intn(len(c16FailErrs))]
		if r.Intn(6) == 0 {
			svc.retErr = status.Error(codes.DataLoss, "handler error")
		}
		var cfgDesc strings.Builder
		fmt.Fprintf(&cfgDesc, "%s T(u=%v,s=%v,%s)", carrier, tl.unary, tl.stream, tl.beh)
		for _, d := range decs {
			fmt.Fprintf(&cfgDesc, " %s(u=%v,s=%v,%s)", d.name, d.unary, d.stream, d.beh)
		}
		fmt.Fprintf(&cfgDesc, " methods=%d streams=%d handlerErr=%v", len(orig.Methods), len(orig.Streams), svc.retErr != nil)
		cfg := cfgDesc.String()
		e.Note("%s", cfg)
		viol := func(sig, msg string, trace []string) {
			e.Violate("interceptors/"+carrier+"/"+sig, msg+" ["+cfg+"]", map[string]any{"config": cfg, "trace": trace})
		}

		// build the decorated descriptor / registry
		var final *grpc.ServiceDesc
		hm := grpchan.HandlerMap{}
		useRegistry := carrier == "registry" || r.Intn(3) == 0
		if useRegistry {
			var reg grpchan.ServiceRegistry = hm
			// WithInterceptor applied innermost first means wrapping order reversed: the
			// registry view applied LAST decorates first (outermost = last InterceptServer call)
			for k := len(decs) - 1; k >= 0; k-- {
				d := decs[k]
				nr := grpchan.WithInterceptor(reg, d.unaryInt(log, &seen), d.streamInt(log, &seen))
				if !d.unary && !d.stream && !sameIface(nr, reg) {
					viol("identity", "WithInterceptor(reg, nil, nil) did not return reg", nil)
				}
				reg = nr
			}
			reg.RegisterService(orig, svc)
			final, _ = hm.QueryService(orig.ServiceName)
			if final == nil {
				viol("registry-lost", "service registered through WithInterceptor is not in the underlying registry", nil)
				return
			}
		} else {
			final = orig
			for _, d := range decs {
				nd := grpchan.InterceptServer(final, d.unaryInt(log, &seen), d.streamInt(log, &seen))
				if !d.unary && !d.stream && nd != final {
					viol("identity", "InterceptServer(desc, nil, nil) did not return desc", nil)
				}
				final = nd
			}
		}
		if final.ServiceName != orig.ServiceName || final.HandlerType != orig.HandlerType || !reflect.DeepEqual(final.Metadata, orig.Metadata) || len(final.Methods) != len(orig.Methods) || len(final.Streams) != len(orig.Streams) {
			viol("desc-fields", "decorated descriptor lost name/handler type/metadata/methods", nil)
			return
		}

		// carriers
		var cc grpc.ClientConnInterface
		var closeFn func()
		tu, ts := tl.unaryInt(log, &seen), tl.streamInt(log, &seen)
		// the same description is often served under a second name as well (an alias kept for old clients): a
		// shallow copy whose method tables are the original's
		alias := *final
		alias.ServiceName = final.ServiceName + "Alias"
		withAlias := r.Intn(2) == 0
		regBoth := func(reg grpc.ServiceRegistrar) {
			reg.RegisterService(final, svc)
			if withAlias {
				reg.RegisterService(&alias, svc)
			}
		}
		switch carrier {
		case "inproc":
			ch := &inprocgrpc.Channel{}
			if r.Intn(2) == 0 {
				ch.WithServerUnaryInterceptor(tu).WithServerStreamInterceptor(ts)
				regBoth(ch)
			} else {
				// configured after the services were registered: the interceptors apply all the same
				regBoth(ch)
				ch.WithServerUnaryInterceptor(tu).WithServerStreamInterceptor(ts)
			}
			cc = ch
		case "http":
			// mounted at the root or below it: the interceptors are told the method name, not the URL path
			base := pick(r, "/", "/", "/api/v1", "/x/")
			var c *Carrier
			if r.Intn(2) == 0 {
				s := httpgrpc.NewServer(httpgrpc.WithBasePath(base), httpgrpc.WithServerUnaryInterceptor(tu), httpgrpc.WithServerStreamInterceptor(ts))
				regBoth(s)
				c = httpCarrier("http", nil, s, base, false, false)
			} else {
				mreg := grpchan.HandlerMap{}
				regBoth(mreg)
				mux := http.NewServeMux()
				httpgrpc.HandleServices(mux.HandleFunc, base, mreg, tu, ts)
				c = httpCarrier("http", nil, mux, base, false, false)
			}
			cc, closeFn = c.CC, c.Close
		}
		if closeFn != nil {
			defer closeFn()
		}

		// expected traces
		var chainNames []string
		expect := func(full string, isStream bool, cs, ss bool) (trace []string, handlerRuns bool, winner *c16Layer) {
			chainNames = nil
			var chain []*c16Layer
			if (isStream && tl.stream) || (!isStream && tl.unary) {
				chain = append(chain, &tl)
			}
			for k := len(decs) - 1; k >= 0; k-- { // outermost decoration first
				if (isStream && decs[k].stream) || (!isStream && decs[k].unary) {
					chain = append(chain, &decs[k])
				}
			}
			handlerRuns = true
			var exits []string
			for _, l := range chain {
				chainNames = append(chainNames, l.name)
				if isStream {
					trace = append(trace, fmt.Sprintf("enter %s %s cs=%v ss=%v", l.name, full, cs, ss))
				} else {
					trace = append(trace, fmt.Sprintf("enter %s %s", l.name, full))
				}
				exits = append([]string{"exit " + l.name}, exits...)
				if l.beh == bShort || l.beh == bFail {
					handlerRuns = false
					winner = l
					break
				}
			}
			if handlerRuns {
				trace = append(trace, "handler "+full)
			}
			trace = append(trace, exits...)
			if winner == nil {
				for _, l := range chain { // outermost rewriter wins
					if l.beh == bRewrite {
						winner = l
						break
					}
				}
			}
			return
		}

		callUnary := func(mi int) {
			md := final.Methods[mi]
			full := "/" + orig.ServiceName + "/" + orig.Methods[mi].MethodName
			seen = nil
			log.take()
			svc.lastReq, svc.lastResp = nil, nil
			req := &tpb.Message{Payload: []byte("req:" + full)}
			var resp interface{}
			var err error
			var decoded *tpb.Message
			switch carrier {
			case "direct", "registry":
				dec := func(m interface{}) error {
					decoded = m.(*tpb.Message)
					decoded.Payload = req.Payload
					return nil
				}
				if pan := guard(func() { resp, err = md.Handler(svc, context.Background(), dec, tu) }); pan != "" {
					viol("panic", pan, nil)
					return
				}
			default:
				out := new(tpb.Message)
				err = cc.Invoke(context.Background(), full, req, out)
				if err == nil {
					resp = out
				}
			}
			got := log.take()
			want, runs, winner := expect(full, false, false, false)
			e.Count("rpcs", 1)
			if strings.Join(got, "\n") != strings.Join(want, "\n") {
				viol("trace/unary", fmt.Sprintf("%s: observed trace %q, expected %q", full, got, want), got)
				return
			}
			// pass-through of request object and results inside the server
			for _, o := range seen {
				if o.server != nil && o.server != interface{}(svc) {
					viol("info-server", full+": UnaryServerInfo.Server is not the registered handler", got)
				}
			}
			_ = decoded
			checkTrail := func() {
				k := 0
				for _, o := range seen {
					if strings.HasSuffix(o.layer, "<") {
						continue
					}
					if k < len(chainNames) && strings.Join(o.trail, ",") != strings.Join(chainNames[:k], ",") {
						viol("passed-on-context", fmt.Sprintf("%s: interceptor %s saw the context trail %v, the interceptors before it passed on %v", full, o.layer, o.trail, chainNames[:k]), got)
					}
					k++
				}
			}
			checkTrail()
			if runs {
				if strings.Join(svc.lastTrail, ",") != strings.Join(chainNames, ",") {
					viol("passed-on-context", fmt.Sprintf("%s: handler saw the context trail %v, the interceptors passed on %v", full, svc.lastTrail, chainNames), got)
				}
				wantPayload := string(req.Payload)
				for _, nme := range chainNames {
					wantPayload += "|" + nme
				}
				if svc.lastReq == nil || string(svc.lastReq.Payload) != wantPayload {
					viol("passed-on-request", fmt.Sprintf("%s: handler received request %q, the interceptors passed on %q", full, svc.lastReq.GetPayload(), wantPayload), got)
				}
			}
			for k := len(seen) - 1; k >= 0; k-- {
				o := seen[k]
				if strings.HasSuffix(o.layer, "<") && runs {
					// what each layer got back from onward must be the handler's result unless an inner layer rewrote
					inner := false
					for _, l := range all {
						if l.beh == bRewrite && l.name != strings.TrimSuffix(o.layer, "<") {
							inner = true
						}
					}
					if !inner && (o.err != svc.retErr || (svc.retErr == nil && o.resp != interface{}(svc.lastResp))) {
						viol("result-identity", fmt.Sprintf("%s: layer %s got (%v,%v) back, handler returned (%p,%v)", full, o.layer, o.resp, o.err, svc.lastResp, svc.retErr), got)
					}
				}
			}
			// client-visible result
			wantPayload, wantCode := "resp:"+full, codes.OK
			if svc.retErr != nil {
				wantCode = codes.DataLoss
			}
			if winner != nil {
				switch winner.beh {
				case bShort:
					wantPayload, wantCode = "short:"+winner.name, codes.OK
				case bFail:
					wantCode = c16FailCode(carrier)
				case bRewrite:
					wantPayload, wantCode = "rewritten:"+winner.name, codes.OK
				}
			}
			if status.Code(err) != wantCode {
				viol("result/unary", fmt.Sprintf("%s: caller got %v, want code %v", full, err, wantCode), got)
			} else if wantCode == codes.OK {
				if m, ok := resp.(*tpb.Message); !ok || string(m.Payload) != wantPayload {
					viol("result/unary", fmt.Sprintf("%s: caller got response %v, want payload %q", full, resp, wantPayload), got)
				}
			}
			if carrier == "direct" || carrier == "registry" {
				// the same decorated method reached through another carrier: it is that carrier's interceptor
				// that runs (first), not the one of whoever called first
				seen = nil
				t2 := c16Layer{name: "T2", unary: true, beh: bPass}
				dec2 := func(m interface{}) error {
					m.(*tpb.Message).Payload = req.Payload
					return nil
				}
				if pan := guard(func() { md.Handler(svc, context.Background(), dec2, t2.unaryInt(log, &seen)) }); pan != "" {
					viol("panic", pan, nil)
					return
				}
				evs := log.take()
				okFirst := len(evs) > 0 && strings.HasPrefix(evs[0], "enter T2 ")
				stale := false
				for _, ev := range evs {
					if strings.HasPrefix(ev, "enter T ") {
						stale = true
					}
				}
				if !okFirst || stale {
					viol("trace/unary-second-carrier", fmt.Sprintf("%s called again with another transport-level interceptor (T2): observed trace %q", full, evs), evs)
				}
			}
		}
		callStream := func(si int) {
			sd := final.Streams[si]
			o := orig.Streams[si]
			full := "/" + orig.ServiceName + "/" + o.StreamName
			if sd.StreamName != o.StreamName || sd.ClientStreams != o.ClientStreams || sd.ServerStreams != o.ServerStreams {
				viol("desc-fields", full+": decorated stream descriptor changed name/flags", nil)
			}
			seen = nil
			log.take()
			var err error
			var got1 *tpb.Message
			switch carrier {
			case "direct", "registry":
				fs := &fakeServerStream{ctx: context.Background(), in: []*tpb.Message{{Payload: []byte("req")}}}
				pan := guard(func() {
					if ts != nil {
						err = ts(svc, fs, &grpc.StreamServerInfo{FullMethod: full, IsClientStream: o.ClientStreams, IsServerStream: o.ServerStreams}, sd.Handler)
					} else {
						err = sd.Handler(svc, fs)
					}
				})
				if pan != "" {
					viol("panic", pan, nil)
					return
				}
				if len(fs.sent) > 0 {
					got1 = fs.sent[0]
				}
			default:
				if withAlias {
					// a call under the alias name first (what it logs is discarded): the call under the real name
					// that follows is described to the interceptors by its own name
					actx, acancel := context.WithCancel(context.Background())
					if ast, aerr := cc.NewStream(actx, &grpc.StreamDesc{ClientStreams: true, ServerStreams: true}, "/"+alias.ServiceName+"/"+o.StreamName); aerr == nil {
						ast.SendMsg(&tpb.Message{Payload: []byte("req")})
						ast.CloseSend()
						adone := make(chan struct{})
						go func() {
							defer close(adone)
							for ast.RecvMsg(new(tpb.Message)) == nil {
							}
						}()
						select {
						case <-adone:
						case <-time.After(5 * time.Second):
						}
					}
					acancel()
					time.Sleep(time.Millisecond)
					seen = nil
					log.take()
				}
				ctx, cancel := context.WithCancel(context.Background())
				cdesc := &grpc.StreamDesc{ClientStreams: o.ClientStreams, ServerStreams: o.ServerStreams}
				if r.Intn(2) == 0 {
					// a generic client that opens every stream as bidirectional: the server side must still
					// describe the method by its registered flags
					cdesc = &grpc.StreamDesc{ClientStreams: true, ServerStreams: true}
				}
				callDone := make(chan struct{})
				go func() {
					defer close(callDone)
					callName := full
					if carrier == "inproc" && r.Intn(3) == 0 {
						// the in-process channel also takes method strings without the leading slash; interceptors
						// are told the full method name all the same
						callName = full[1:]
					}
					st, serr := cc.NewStream(ctx, cdesc, callName)
					err = serr
					if serr == nil {
						st.SendMsg(&tpb.Message{Payload: []byte("req")})
						if o.ClientStreams {
							// a client that has more to say before it listens
							st.SendMsg(&tpb.Message{Payload: []byte("req2")})
							st.SendMsg(&tpb.Message{Payload: []byte("req3")})
						}
						st.CloseSend()
						m := new(tpb.Message)
						err = st.RecvMsg(m)
						if err == nil {
							got1 = m
							if cdesc.ServerStreams {
								err = st.RecvMsg(new(tpb.Message))
							}
						}
						if err == io.EOF {
							err = nil
						}
					}
				}()
				if fin, stuck, dump := waitDoneOrStuck(callDone, 60*time.Second); !fin {
					cancel()
					<-callDone
					log.take()
					if stuck {
						viol("hang/stream", full+": the call did not finish: client and server are parked for good\n"+trunc(dump, 3000), nil)
					} else {
						e.Inconclusive("C16 %s: call still running after 60 s", full)
					}
					return
				}
				cancel()
			}
			got := log.take()
			want, handlerRuns, winner := expect(full, true, o.ClientStreams, o.ServerStreams)
			e.Count("rpcs", 1)
			if strings.Join(got, "\n") != strings.Join(want, "\n") {
				viol("trace/stream", fmt.Sprintf("%s: observed trace %q, expected %q", full, got, want), got)
				return
			}
			for _, ob := range seen {
				if ob.server != nil && ob.server != interface{}(svc) {
					viol("info-server", full+": stream interceptor got a different srv", got)
				}
			}
			// what each layer gets back from onward is the handler's own result (the very error value),
			// unless a layer further in replaced it
			for _, ob := range seen {
				if !strings.HasSuffix(ob.layer, "<") {
					continue
				}
				innerRewrites := false
				for _, l := range all {
					if l.beh == bRewrite && l.name != strings.TrimSuffix(ob.layer, "<") {
						innerRewrites = true
					}
				}
				if handlerRuns && !innerRewrites && ob.err != svc.retErr {
					viol("result-identity/stream", fmt.Sprintf("%s: layer %s got %v back from onward, the handler returned %v", full, ob.layer, ob.err, svc.retErr), got)
					break
				}
			}
			{
				k := 0
				for _, ob := range seen {
					if strings.HasSuffix(ob.layer, "<") {
						continue
					}
					if k < len(chainNames) && strings.Join(ob.trail, ",") != strings.Join(chainNames[:k], ",") {
						viol("passed-on-context", fmt.Sprintf("%s: stream interceptor %s saw the context trail %v, expected %v", full, ob.layer, ob.trail, chainNames[:k]), got)
					}
					k++
				}
				ranAll := true
				for _, l := range all {
					if l.beh == bShort || l.beh == bFail {
						for _, cn := range chainNames {
							if cn == l.name {
								ranAll = false
							}
						}
					}
				}
				if ranAll && strings.Join(svc.lastTrail, ",") != strings.Join(chainNames, ",") {
					viol("passed-on-context", fmt.Sprintf("%s: stream handler saw the context trail %v, expected %v", full, svc.lastTrail, chainNames), got)
				}
			}
			wantCode := codes.OK
			wantMsg := true
			if svc.retErr != nil {
				wantCode, wantMsg = codes.DataLoss, false
			}
			if winner != nil {
				switch winner.beh {
				case bShort:
					wantCode, wantMsg = codes.OK, false
				case bFail:
					wantCode, wantMsg = c16FailCode(carrier), false
				case bRewrite:
					wantCode = codes.Aborted
				}
			}
			if carrier == "direct" || carrier == "registry" {
				if status.Code(err) != wantCode {
					viol("result/stream", fmt.Sprintf("%s: handler chain returned %v, want code %v", full, err, wantCode), got)
				}
				if wantMsg && wantCode == codes.OK && (got1 == nil || string(got1.Payload) != "resp:"+full) {
					viol("result/stream", full+": response message missing or altered", got)
				}
			} else {
				// over a transport a short-circuit without response on a single-response method is an error by C08; judge codes only where defined
				if wantCode != codes.OK && status.Code(err) != wantCode {
					viol("result/stream", fmt.Sprintf("%s: caller got %v, want code %v", full, err, wantCode), got)
				}
				if wantCode == codes.OK && wantMsg && (err != nil || got1 == nil || string(got1.Payload) != "resp:"+full) {
					viol("result/stream", fmt.Sprintf("%s: caller got (%v, %v), want the handler's response", full, got1, err), got)
				}
			}
		}
		for mi := range final.Methods {
			callUnary(mi)
		}
		for si := range final.Streams {
			callStream(si)
		}
		// the original description must be untouched, structurally and behaviourally
		after := snapDesc(orig)
		if !reflect.DeepEqual(before, after) {
			viol("original-modified", "the input ServiceDesc was modified by decoration", nil)
		}
		if len(decs) > 0 {
			log.take()
			for mi := range orig.Methods {
				orig.Methods[mi].Handler(svc, context.Background(), func(interface{}) error { return nil }, nil)
			}
			for si := range orig.Streams {
				orig.Streams[si].Handler(svc, &fakeServerStream{ctx: context.Background()})
			}
			for _, ev := range log.take() {
				if strings.HasPrefix(ev, "enter") {
					viol("original-modified", "calling the ORIGINAL description's handler ran an interceptor: "+ev, nil)
					break
				}
			}
		}
		e.Eval(cfg, nDec > 0 || tl.unary || tl.stream)
		if i < 3 {
			e.Sample(map[string]any{"config": cfg})
		}
	})
	_ = errors.New

	// nested registry views: decorating a view must not change what the view itself (or any view below it) does
	e.Cases("views", e.N(1500, 25000), func(i int, r *rand.Rand) {
		log := &c16log{}
		var seen []observed
		hm := grpchan.HandlerMap{}
		depth := 1 + r.Intn(4)
		views := []grpchan.ServiceRegistry{hm}
		var layers []c16Layer
		type regd struct {
			desc  *grpc.ServiceDesc
			level int
			svc   *c16Svc
		}
		var regs []regd
		var trace []string
		register := func() {
			level := r.Intn(len(views))
			d := c16Desc(r, fmt.Sprintf("c16.V%d", len(regs)))
			sv := &c16Svc{log: log}
			views[level].RegisterService(d, sv)
			regs = append(regs, regd{d, level, sv})
			trace = append(trace, fmt.Sprintf("register %s through view %d", d.ServiceName, level))
		}
		for k := 0; k < depth; k++ {
			for r.Intn(3) == 0 {
				register()
			}
			l := c16Layer{name: fmt.Sprintf("L%d", k), unary: r.Intn(2) == 0, stream: r.Intn(2) == 0, beh: bPass}
			layers = append(layers, l)
			views = append(views, grpchan.WithInterceptor(views[k], l.unaryInt(log, &seen), l.streamInt(log, &seen)))
			trace = append(trace, fmt.Sprintf("view %d = WithInterceptor(view %d, unary=%v, stream=%v)", k+1, k, l.unary, l.stream))
		}
		for n := 1 + r.Intn(4); n > 0; n-- {
			register()
		}
		cfg := strings.Join(trace, "; ")
		e.Note("%s", cfg)
		entered := func(evs []string) string {
			var names []string
			for _, ev := range evs {
				if f := strings.Fields(ev); len(f) >= 2 && f[0] == "enter" {
					names = append(names, f[1])
				}
			}
			return strings.Join(names, ",")
		}
		for _, rg := range regs {
			fd, h := hm.QueryService(rg.desc.ServiceName)
			if fd == nil || h != interface{}(rg.svc) {
				e.Violate("interceptors/views/registry-lost", "service registered through a view is not in the underlying registry ["+cfg+"]", trace)
				return
			}
			want := func(stream bool) string {
				var names []string
				for k := 0; k < rg.level; k++ { // the view nearest the registry decorates last, so it runs first
					if (stream && layers[k].stream) || (!stream && layers[k].unary) {
						names = append(names, layers[k].name)
					}
				}
				return strings.Join(names, ",")
			}
			for mi := range fd.Methods {
				log.take()
				seen = nil
				if pan := guard(func() {
					fd.Methods[mi].Handler(rg.svc, context.Background(), func(interface{}) error { return nil }, nil)
				}); pan != "" {
					e.Violate("interceptors/views/panic", pan+" ["+cfg+"]", trace)
					return
				}
				e.Count("rpcs", 1)
				if got := entered(log.take()); got != want(false) {
					e.Violate("interceptors/views/unary", fmt.Sprintf("%s (registered through view %d): unary interceptors run: [%s], applicable: [%s] [%s]", rg.desc.ServiceName, rg.level, got, want(false), cfg), trace)
					return
				}
			}
			for si := range fd.Streams {
				log.take()
				seen = nil
				if pan := guard(func() {
					fd.Streams[si].Handler(rg.svc, &fakeServerStream{ctx: context.Background(), in: []*tpb.Message{{}}})
				}); pan != "" {
					e.Violate("interceptors/views/panic", pan+" ["+cfg+"]", trace)
					return
				}
				e.Count("rpcs", 1)
				if got := entered(log.take()); got != want(true) {
					e.Violate("interceptors/views/stream", fmt.Sprintf("%s (registered through view %d): stream interceptors run: [%s], applicable: [%s] [%s]", rg.desc.ServiceName, rg.level, got, want(true), cfg), trace)
					return
				}
			}
		}
		var shape []string
		for _, l := range layers {
			shape = append(shape, fmt.Sprintf("%v%v", l.unary, l.stream))
		}
		for _, rg := range regs {
			shape = append(shape, fmt.Sprint(rg.level))
		}
		e.Eval("views|"+strings.Join(shape, ","), true)
		if i < 2 {
			e.Sample(map[string]any{"views": trace})
		}
	})
}
