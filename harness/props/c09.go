package props

import (
	"bytes"
	"context"
	"encoding/binary"
	"errors"
	"fmt"
	"io"
	"math/big"
	"math/rand"
	"net"
	"net/http"
	"net/http/httptest"
	"strings"
	"sync"
	"time"

	tpb "github.com/fullstorydev/grpchan/grpchantesting"
	"github.com/fullstorydev/grpchan/httpgrpc"
	"google.golang.org/grpc"
	"google.golang.org/grpc/metadata"
	"google.golang.org/protobuf/proto"

	"verifharness/core"
)

func init() { core.Register("C09", checkC09) }

// virtualDeadlineCtx reports a deadline without ever firing: remaining
// durations from microseconds to centuries can be presented without waiting.
type virtualDeadlineCtx struct {
	context.Context
	d time.Time
}

func (c virtualDeadlineCtx) Deadline() (time.Time, bool) { return c.d, true }

var unitDur = map[byte]time.Duration{'H': time.Hour, 'M': time.Minute, 'S': time.Second, 'm': time.Millisecond, 'u': time.Microsecond, 'n': time.Nanosecond}

// parseTimeoutExact: exact duration in ns of "<digits><unit>", ok=false if not of that form.
func parseTimeoutExact(s string) (*big.Int, bool) {
	if len(s) < 2 {
		return nil, false
	}
	u, ok := unitDur[s[len(s)-1]]
	if !ok {
		return nil, false
	}
	digits := s[:len(s)-1]
	for _, c := range digits {
		if c < '0' || c > '9' {
			return nil, false
		}
	}
	v, ok := new(big.Int).SetString(digits, 10)
	if !ok {
		return nil, false
	}
	return v.Mul(v, big.NewInt(int64(u))), true
}

const hundredYears = 100 * 365 * 24 * time.Hour

func streamBody(msgs ...proto.Message) []byte {
	var b bytes.Buffer
	for _, m := range msgs {
		p, _ := proto.Marshal(m)
		binary.Write(&b, binary.BigEndian, int32(len(p)))
		b.Write(p)
	}
	return b.Bytes()
}

// slowCreds takes a while to produce its metadata and notes when it was done.
type slowCreds struct {
	delay time.Duration
	done  time.Time
}

func (c *slowCreds) GetRequestMetadata(context.Context, ...string) (map[string]string, error) {
	time.Sleep(c.delay)
	c.done = time.Now()
	return map[string]string{"authorization": "t"}, nil
}
func (c *slowCreds) RequireTransportSecurity() bool { return false }

// slowBody hands out the request body only after a pause and notes when it was first asked for it.
type slowBody struct {
	r     io.Reader
	delay time.Duration
	first time.Time
}

func (b *slowBody) Read(p []byte) (int, error) {
	if b.first.IsZero() {
		b.first = time.Now()
		time.Sleep(b.delay)
	}
	return b.r.Read(p)
}
func (b *slowBody) Close() error { return nil }

type deadlineProbe struct {
	mu    sync.Mutex
	has   bool
	h     time.Time
	entry time.Time
	ran   bool
	err   error
}

func checkC09(e *core.Env) {
	curEnv = e
	e.SetRule("client side: virtual-deadline contexts with remaining time from <1ms to 300 years -> GRPC-Timeout captured by a recording RoundTripper, bounds from instants taken before the call and at capture; server side: header strings (6 units x {0,1,9,10,99999999,random 1-8 digits, 9-20 digits, leading zeros} + malformed) through ServeHTTP for unary and stream methods, handler's ctx.Deadline() bounded by instants before ServeHTTP and at handler entry; a quarter of the client cases use per-RPC credentials that take 5 ms (upper bound then taken when they were obtained), some unary server cases a request body that arrives 5 ms after the headers (upper bound then taken when the server first asked for the body); end-to-end over loopback with real deadlines; all bounds one-sided, from ordered instants only; distinct = (phase, unit, magnitude class)")
	e.Assume("for values whose exact duration exceeds int64 nanoseconds both a saturated far-future deadline and no deadline at all count as saturation; '+'-signed values are only required not to crash")
	svc := &Service{}
	srv := httpgrpc.NewServer()
	srv.RegisterService(&ScriptedDesc, svc)

	// ---- client encoding ----
	e.Cases("client", e.N(1500, 30000), func(i int, r *rand.Rand) {
		var rem time.Duration
		switch r.Intn(8) {
		case 0:
			rem = time.Duration(r.Intn(1000)) * time.Microsecond // below 1ms
		case 1:
			rem = -time.Duration(r.Intn(1e9)) // already past
		case 2:
			rem = time.Duration(r.Int63n(int64(time.Second)))
		case 3:
			rem = time.Duration(r.Int63n(int64(time.Hour)))
		case 4:
			rem = time.Duration(r.Int63n(int64(24 * 365 * time.Hour)))
		case 5:
			rem = time.Duration(r.Int63n(int64(290 * 365 * 24 * time.Hour)))
		case 6:
			rem = pick(r, time.Millisecond, 2*time.Millisecond-1, 999999*time.Nanosecond, 1000001*time.Nanosecond, time.Duration(1<<62))
		default:
			rem = time.Duration(r.Int63n(int64(10 * time.Second)))
		}
		noDeadline := r.Intn(10) == 0
		stream := r.Intn(2) == 0
		var hdr []string
		var t2 time.Time
		got := false
		rt := rtFunc(func(rq *http.Request) (*http.Response, error) {
			t2 = time.Now()
			hdr, got = rq.Header["Grpc-Timeout"], true
			return nil, fmt.Errorf("recorded")
		})
		ch := &httpgrpc.Channel{BaseURL: mustURL("http://c09.test/"), Transport: rt}
		// credentials that take a while: time spent obtaining them is not transit time, so the header
		// must carry what remains once they are there
		var copts []grpc.CallOption
		var creds *slowCreds
		if r.Intn(4) == 0 {
			creds = &slowCreds{delay: 5 * time.Millisecond}
			copts = append(copts, grpc.PerRPCCredentials(creds))
			e.Count("client_slow_creds", 1)
		}
		t0 := time.Now()
		D := t0.Add(rem)
		var ctx context.Context = context.Background()
		if !noDeadline {
			ctx = virtualDeadlineCtx{ctx, D}
			if r.Intn(6) == 0 {
				// metadata relayed from an incoming call may hold a stale grpc-timeout entry: the header sent is the
				// one derived from this call's deadline, and only that one
				ctx = metadata.AppendToOutgoingContext(ctx, "grpc-timeout", pick(r, "1H", "99999999S", "1n"))
				e.Count("client_stale_timeout_metadata", 1)
			}
		}
		if !stream {
			ch.Invoke(ctx, Unary.Method(), &tpb.Message{}, new(tpb.Message), copts...)
		} else {
			cctx, cancel := context.WithCancel(ctx)
			st, err := ch.NewStream(cctx, ServerStream.StreamDesc(), ServerStream.Method(), copts...)
			if err == nil {
				st.Header() // waits for the round trip
			}
			cancel()
		}
		cls := fmt.Sprintf("client|%v|%d", stream, len(fmt.Sprint(int64(rem/time.Millisecond))))
		e.Eval(cls, true)
		if !got {
			e.Inconclusive("C09 client: round trip not observed")
			return
		}
		if noDeadline {
			if len(hdr) != 0 {
				e.Violate("client/deadline-added", fmt.Sprintf("no caller deadline but GRPC-Timeout=%q was sent", hdr), nil)
			}
			return
		}
		if len(hdr) != 1 {
			e.Violate("client/missing", fmt.Sprintf("caller deadline in %v but GRPC-Timeout header = %q", rem, hdr), nil)
			return
		}
		d, ok := parseTimeoutExact(hdr[0])
		if !ok {
			e.Violate("client/malformed", fmt.Sprintf("GRPC-Timeout %q is not <digits><unit>", hdr[0]), nil)
			return
		}
		// not extended: d <= max(1ms, D - t0) ; not shortened: d >= D - t2 - 1ms
		hi := D.Sub(t0)
		if creds != nil && !creds.done.IsZero() {
			hi = D.Sub(creds.done)
		}
		if hi < time.Millisecond {
			hi = time.Millisecond
		}
		lo := D.Sub(t2) - time.Millisecond
		if d.Cmp(big.NewInt(int64(hi))) > 0 {
			e.Violate("client/extended", fmt.Sprintf("remaining at call time (after credentials were obtained: %v) %v but GRPC-Timeout=%s (longer)", creds != nil, hi, hdr[0]), nil)
		}
		if d.Cmp(big.NewInt(int64(lo))) < 0 {
			e.Violate("client/shortened", fmt.Sprintf("remaining at send time %v but GRPC-Timeout=%s (shorter by more than 1ms)", D.Sub(t2), hdr[0]), nil)
		}
		if i < 3 {
			e.Sample(map[string]any{"phase": "client", "remaining": rem.String(), "header": hdr[0]})
		}
	})

	// the same context used for one call after another (a batch of calls under one deadline), on one channel:
	// each call's header is worked out from what remains when that call is made
	e.Cases("client-later-calls", e.N(16, 160), func(i int, r *rand.Rand) {
		var hdrs [][]string
		rt := rtFunc(func(rq *http.Request) (*http.Response, error) {
			hdrs = append(hdrs, rq.Header["Grpc-Timeout"])
			return nil, fmt.Errorf("recorded")
		})
		ch := &httpgrpc.Channel{BaseURL: mustURL("http://c09.test/"), Transport: rt}
		rem := pick(r, 2*time.Second, time.Minute, time.Hour, 40*time.Hour)
		D := time.Now().Add(rem)
		ctx := virtualDeadlineCtx{context.Background(), D}
		var starts []time.Time
		for k := 0; k < 3; k++ {
			if k > 0 {
				time.Sleep(time.Duration(20+r.Intn(20)) * time.Millisecond)
			}
			starts = append(starts, time.Now())
			if (i+k)%2 == 0 {
				ch.Invoke(ctx, Unary.Method(), &tpb.Message{}, new(tpb.Message))
			} else {
				cctx, cancel := context.WithCancel(ctx)
				if st, err := ch.NewStream(cctx, ServerStream.StreamDesc(), ServerStream.Method()); err == nil {
					st.Header()
				}
				cancel()
			}
		}
		e.Eval(fmt.Sprintf("client-later-calls|%v", rem), true)
		if len(hdrs) != 3 {
			e.Inconclusive("C09 client-later-calls: %d round trips observed", len(hdrs))
			return
		}
		for k, h := range hdrs {
			if len(h) != 1 {
				e.Violate("client/missing", fmt.Sprintf("call #%d under one deadline: GRPC-Timeout header = %q", k+1, h), nil)
				return
			}
			d, ok := parseTimeoutExact(h[0])
			if !ok {
				e.Violate("client/malformed", fmt.Sprintf("GRPC-Timeout %q is not <digits><unit>", h[0]), nil)
				return
			}
			if hi := D.Sub(starts[k]); d.Cmp(big.NewInt(int64(hi))) > 0 {
				e.Violate("client/extended/later-call", fmt.Sprintf("call #%d made with the same context: %v remained when it started but GRPC-Timeout=%s (longer; the first call carried %s)", k+1, hi, h[0], hdrs[0][0]), nil)
				return
			}
		}
	})

	// connections that cannot be established at first (a server that is restarting): however often the library
	// tries again within one call, every request it issues carries what remains at that time - a request issued
	// after an earlier attempt had failed never carries more than remained when that earlier attempt was made
	e.Cases("client-dial-failure", e.N(8, 80), func(i int, r *rand.Rand) {
		var hdrs [][]string
		var at []time.Time
		var mu sync.Mutex
		rt := rtFunc(func(rq *http.Request) (*http.Response, error) {
			mu.Lock()
			defer mu.Unlock()
			at = append(at, time.Now())
			hdrs = append(hdrs, rq.Header["Grpc-Timeout"])
			if len(at) <= 3 {
				return nil, &net.OpError{Op: "dial", Net: "tcp", Err: errors.New("connect: connection refused")}
			}
			return nil, fmt.Errorf("recorded")
		})
		ch := &httpgrpc.Channel{BaseURL: mustURL("http://c09.test/"), Transport: rt}
		rem := pick(r, 5*time.Second, time.Minute, time.Hour)
		D := time.Now().Add(rem)
		ctx := virtualDeadlineCtx{context.Background(), D}
		if i%2 == 0 {
			ch.Invoke(ctx, Unary.Method(), &tpb.Message{}, new(tpb.Message))
		} else {
			cctx, cancel := context.WithCancel(ctx)
			if st, err := ch.NewStream(cctx, ServerStream.StreamDesc(), ServerStream.Method()); err == nil {
				st.Header()
			}
			cancel()
		}
		mu.Lock()
		defer mu.Unlock()
		e.Eval(fmt.Sprintf("client-dial-failure|%v|attempts=%d", i%2 == 0, len(at)), true)
		e.Count("dial_failure_attempts_observed", int64(len(at)))
		for k := 1; k < len(at); k++ {
			if len(hdrs[k]) != 1 {
				e.Violate("client/missing", fmt.Sprintf("attempt #%d of one call: GRPC-Timeout header = %q", k+1, hdrs[k]), nil)
				return
			}
			d, ok := parseTimeoutExact(hdrs[k][0])
			if !ok {
				continue
			}
			if hi := D.Sub(at[k-1]); d.Cmp(big.NewInt(int64(hi))) > 0 {
				e.Violate("client/extended/later-attempt", fmt.Sprintf("attempt #%d of one call (the connection could not be established before) carries GRPC-Timeout=%s although only %v remained when attempt #%d was made", k+1, hdrs[k][0], hi, k), nil)
				return
			}
		}
	})

	// ---- server parse ----
	badMD := false
	// parentIn > 0: the request context already carries a deadline of the server's own (http.TimeoutHandler,
	// a BaseContext with a deadline); the handler then has the earlier of the two, never one later than the caller's
	var parentIn time.Duration
	var parentAt time.Time
	serve := func(hv string, stream, slow bool) (p *deadlineProbe, tb time.Time, pan string, code int, sb *slowBody) {
		p = &deadlineProbe{}
		sc := &Script{Kind: Unary, UnaryReq: &tpb.Message{}, Resp: &tpb.Message{}}
		if stream {
			sc = &Script{Kind: ServerStream, Handler: []Op{{Op: "recv"}}}
		}
		run := svc.NewRun(sc, "http-direct")
		defer svc.Forget(run)
		probe := func(ctx context.Context) {
			p.entry = time.Now()
			p.h, p.has = ctx.Deadline()
			p.err = ctx.Err()
			p.ran = true
		}
		run.OnHandler = func(ctx context.Context, _ *Run, _ grpc.ServerStream) { probe(ctx) }
		// a handler that runs although its metadata (with the run id) got lost is probed all the same
		svc.OnUnknown = probe
		defer func() { svc.OnUnknown = nil }()
		var req *http.Request
		if !stream {
			req = unaryHTTPRequest(context.Background(), "/", run, nil)
		} else {
			req = httptest.NewRequest("POST", ServerStream.Method(), bytes.NewReader(streamBody(&tpb.Message{})))
			req.Header.Set("Content-Type", httpgrpc.StreamRpcContentType_V1)
			req.Header.Set("X-Verif-Run", run.ID)
		}
		req.Header["Grpc-Timeout"] = []string{hv}
		if badMD {
			// metadata that cannot be decoded next to a valid timeout: the request may be refused, but a
			// handler that does run has the deadline
			req.Header["X-Blob-Bin"] = []string{"YQ", "!!not base64!!"}
			e.Count("server_undecodable_metadata", 1)
		}
		if slow && !stream {
			// the timeout is known once the headers are there: a body that trickles in afterwards
			// must not postpone the deadline
			sb = &slowBody{r: req.Body, delay: 5 * time.Millisecond}
			req.Body = sb
			e.Count("server_slow_body", 1)
		}
		rec := httptest.NewRecorder()
		tb = time.Now()
		if parentIn > 0 {
			parentAt = tb.Add(parentIn)
			pctx, pcancel := context.WithDeadline(req.Context(), parentAt)
			defer pcancel()
			req = req.WithContext(pctx)
			e.Count("server_own_deadline", 1)
		}
		pan = guard(func() { srv.ServeHTTP(rec, req) })
		return p, tb, pan, rec.Code, sb
	}
	judge := func(hv string, stream, slow bool) {
		p, tb, pan, code, sb := serve(hv, stream, slow)
		d, valid := parseTimeoutExact(hv)
		if pan != "" {
			e.Violate("server/panic", fmt.Sprintf("GRPC-Timeout %q made the server panic: %s", trunc(hv, 60), trunc(pan, 600)), hv)
			return
		}
		if !valid {
			return // only "never crash" is required
		}
		if !p.ran && badMD {
			return
		}
		if !p.ran && d.IsInt64() && d.Int64() < int64(10*time.Millisecond) {
			return // a server may refuse to dispatch a call whose time is (all but) up
		}
		if !p.ran {
			e.Violate("server/valid-rejected", fmt.Sprintf("valid GRPC-Timeout %q: handler did not run (HTTP %d)", hv, code), hv)
			return
		}
		cap100 := big.NewInt(int64(hundredYears))
		overflow := !d.IsInt64()
		switch {
		case !p.has:
			if !overflow && d.Cmp(cap100) <= 0 {
				e.Violate("server/no-deadline", fmt.Sprintf("GRPC-Timeout %q gave the handler no deadline", hv), hv)
			}
		default:
			if p.err != nil && p.h.Sub(p.entry) > time.Second {
				e.Violate("server/spurious-expiry", fmt.Sprintf("GRPC-Timeout %q: the handler's context was already over (%v) on entry, %v before its deadline, although nobody cancelled the request", hv, p.err, p.h.Sub(p.entry)), hv)
			}
			lower := d
			if overflow || d.Cmp(cap100) > 0 {
				lower = cap100
			}
			earliest := tb.Add(time.Duration(lower.Int64()))
			if parentIn > 0 && parentAt.Before(earliest) {
				earliest = parentAt
			}
			if p.h.Before(earliest) {
				e.Violate("server/too-early/"+string(hv[len(hv)-1]), fmt.Sprintf("GRPC-Timeout %q: handler deadline is %v after the request started, want >= %v (wrap-around / truncation)", hv, p.h.Sub(tb), time.Duration(lower.Int64())), hv)
			}
			upper := p.entry
			if sb != nil && !sb.first.IsZero() {
				upper = sb.first
			}
			if !overflow && p.h.After(upper.Add(time.Duration(d.Int64()))) {
				e.Violate("server/too-late/"+string(hv[len(hv)-1]), fmt.Sprintf("GRPC-Timeout %q: handler deadline is %v after handler entry (or after the server first asked for a slow request body: %v), want <= %v", hv, p.h.Sub(upper), sb != nil, time.Duration(d.Int64())), hv)
			}
		}
	}
	units := "HMSmun"
	grid := []string{"0", "1", "9", "10", "99999999", "00000001", "007", "12345678", "2562047", "2562048", "153722867", "153722868", "9223372036", "9223372037", "9223372036854", "9223372036855", "9223372036854775807", "9223372036854775808", "18446744073709551616", "99999999999999999999"}
	gi := 0
	for _, u := range units {
		for _, g := range grid {
			for _, stream := range []bool{false, true} {
				gi++
				if !e.Selected("grid", gi) {
					continue
				}
				hv := g + string(u)
				e.Begin("grid", gi, hv)
				if gi%5 == 2 {
					parentIn = []time.Duration{time.Minute, 3 * time.Hour, 200 * 24 * time.Hour}[gi/5%3]
				}
				judge(hv, stream, gi%8 == 1)
				parentIn = 0
				e.Eval(fmt.Sprintf("grid|%c|%s|%v", u, g, stream), true)
			}
		}
	}
	e.Cases("server-random", e.N(5000, 150000), func(i int, r *rand.Rand) {
		var hv string
		switch r.Intn(10) {
		case 0, 1, 2, 3, 4: // 1-8 digits
			n := 1 + r.Intn(8)
			var b strings.Builder
			for k := 0; k < n; k++ {
				b.WriteByte(byte('0' + r.Intn(10)))
			}
			hv = b.String() + string(units[r.Intn(6)])
		case 5: // 9-20 digits
			n := 9 + r.Intn(12)
			var b strings.Builder
			b.WriteByte(byte('1' + r.Intn(9)))
			for k := 1; k < n; k++ {
				b.WriteByte(byte('0' + r.Intn(10)))
			}
			hv = b.String() + string(units[r.Intn(6)])
		default: // malformed
			hv = pick(r, "S", "5", "", " ", "5 S", " 5S", "5S ", "-5S", "+5S", "5x", "5s", "5h", "H5", "5.5S", "0x10S", "1e3m", "٣S", "5µ", "S5S", "--1m", "1_000m",
				strings.Repeat("9", 400)+"H", strings.Repeat("S", 50), "\x00", "5\x00S", "9223372036854775807n", "-9223372036854775808n", "m", "n", "1H2M")
		}
		e.Note("%q", hv)
		badMD = r.Intn(12) == 0
		if r.Intn(5) == 0 {
			parentIn = pick(r, 30*time.Second, 10*time.Minute, time.Hour, 36*time.Hour, 90*24*time.Hour, 90*365*24*time.Hour)
		}
		judge(hv, r.Intn(2) == 0, r.Intn(16) == 0)
		badMD, parentIn = false, 0
		cls := "malformed"
		if _, ok := parseTimeoutExact(hv); ok {
			cls = fmt.Sprintf("%c/%d", hv[len(hv)-1], len(hv))
		}
		e.Eval("server|"+cls, true)
		if i < 3 {
			e.Sample(map[string]any{"phase": "server", "header": hv})
		}
	})

	// ---- end to end over loopback with real deadlines ----
	c := NewHTTPServer(&Service{}, carrierOpt{})
	defer c.Close()
	e.Cases("e2e", e.N(300, 4000), func(i int, r *rand.Rand) {
		rem := time.Duration(50+r.Intn(20000)) * time.Millisecond
		if r.Intn(5) == 0 {
			rem = time.Duration(r.Int63n(int64(1000 * time.Hour)))
		}
		kind := pick(r, Unary, ServerStream, ClientStream)
		sc := genDeliveryScript(r, kind, true, false)
		p := &deadlineProbe{}
		noDeadline := r.Intn(8) == 0
		run := c.Svc.NewRun(sc, c.Name)
		run.OnHandler = func(ctx context.Context, _ *Run, _ grpc.ServerStream) {
			p.entry = time.Now()
			p.h, p.has = ctx.Deadline()
			p.err = ctx.Err()
			p.ran = true
		}
		t0 := time.Now()
		D := t0.Add(rem)
		parent, cancel := context.WithDeadline(context.Background(), D)
		if noDeadline {
			parent = context.Background()
		}
		ok, _ := run.Exec(c.CC, parent, watchdog)
		cancel()
		run.Cancel()
		c.Svc.Forget(run)
		if !ok || !p.ran {
			e.Inconclusive("C09 e2e: run incomplete")
			return
		}
		e.Eval(fmt.Sprintf("e2e|%s|%d", kind, len(rem.String())), true)
		if noDeadline {
			if p.has {
				e.Violate("e2e/deadline-added", fmt.Sprintf("caller had no deadline, handler has one in %v", p.h.Sub(p.entry)), nil)
			}
			return
		}
		if !p.has {
			e.Violate("e2e/deadline-lost", fmt.Sprintf("caller deadline in %v, handler has none", rem), nil)
			return
		}
		if p.err != nil && p.h.Sub(p.entry) > time.Second {
			e.Violate("e2e/spurious-expiry", fmt.Sprintf("the handler's context was already over (%v) on entry, %v before its deadline and before the caller ended anything", p.err, p.h.Sub(p.entry)), nil)
		}
		if p.h.Before(D.Add(-time.Millisecond)) {
			e.Violate("e2e/too-early", fmt.Sprintf("handler deadline is %v earlier than the caller's", D.Sub(p.h)), nil)
		}
		if p.h.After(D.Add(p.entry.Sub(t0) + time.Millisecond)) {
			e.Violate("e2e/too-late", fmt.Sprintf("handler deadline is %v later than the caller's (transit %v)", p.h.Sub(D), p.entry.Sub(t0)), nil)
		}
	})
}
