package props

import (
	"bytes"
	"context"
	"encoding/json"
	"fmt"
	"github.com/fullstorydev/grpchan/httpgrpc"
	"github.com/fullstorydev/grpchan/inprocgrpc"
	"google.golang.org/protobuf/encoding/protojson"
	"google.golang.org/protobuf/proto"
	"io"
	"math/rand"
	"net/http"
	"net/http/httptest"
	"runtime"
	"strings"
	"time"

	tpb "github.com/fullstorydev/grpchan/grpchantesting"
	"google.golang.org/grpc"
	"google.golang.org/grpc/codes"
	"google.golang.org/grpc/metadata"
	"google.golang.org/grpc/status"

	"verifharness/core"
)

func init() { core.Register("C08", checkC08) }

// plainMsg is a message type that is not a protobuf message; plainJSONCodec carries it.
type plainMsg struct {
	Text string
	N    int
}

type plainJSONCodec struct{}

func (plainJSONCodec) Marshal(v interface{}) ([]byte, error)      { return json.Marshal(v) }
func (plainJSONCodec) Unmarshal(data []byte, v interface{}) error { return json.Unmarshal(data, v) }
func (plainJSONCodec) Name() string                               { return "plain-json" }

func checkC08(e *core.Env) {
	curEnv = e
	e.SetRule("client-streaming handlers emitting n in {0,1,2,3,5} raw responses with nil or non-nil final status, with/without headers and trailers, client asking for headers first or not; unary handlers returning a nil response (in-process); unary replies over HTTP that break off at every byte offset or are not messages (success only with the one complete response); over HTTP, clients sending 0..3 request messages to a single-request method; oracle: success => exactly one response, handler nil, message equal; n=1 and nil => success; extra requests => handler's first receive fails and the client sees non-OK; distinct = (carrier, n, final status, header/trailer use, client order)")
	cs := stdCarriers()
	defer cs.Close()
	// the same service registered through an intercepting registry (pass-through interceptors)
	decServer := NewHTTPServer(&Service{}, carrierOpt{decorate: true})
	decServer.Name = "http-server-decorated"
	decMux := NewHTTPMux(&Service{}, carrierOpt{decorate: true, basePath: "/d/"})
	decMux.Name = "http-mux-decorated"
	decInproc := NewInproc(&Service{}, carrierOpt{decorate: true})
	decInproc.Name = "inproc-decorated"
	defer decServer.Close()
	defer decMux.Close()
	defer decInproc.Close()
	// a registration that describes every stream as bidirectional (generic dispatchers and proxies register
	// that way): how many responses a call may yield is the caller's descriptor's business
	genericDesc := ScriptedDesc
	genericDesc.Streams = append([]grpc.StreamDesc{}, ScriptedDesc.Streams...)
	for k := range genericDesc.Streams {
		genericDesc.Streams[k].ClientStreams, genericDesc.Streams[k].ServerStreams = true, true
	}
	genSvc := &Service{}
	genCh := &inprocgrpc.Channel{}
	genCh.RegisterService(&genericDesc, genSvc)
	genInproc := &Carrier{Name: "inproc-generic-registration", CC: genCh, Inproc: true, Svc: genSvc, Inner: genCh}
	cs.list = append(cs.list, decInproc, decServer, decMux, genInproc)
	n := e.N(800, 12000)
	e.Cases("responses", n, func(i int, r *rand.Rand) {
		for ci, c := range cs.list {
			rr := rand.New(rand.NewSource(r.Int63() + int64(ci)))
			nresp := pick(rr, 0, 1, 1, 2, 2, 3, 5)
			tag := fmt.Sprintf("%016x", rr.Uint64())
			sc := &Script{Kind: ClientStream}
			nreq := rr.Intn(4)
			for k := 0; k < nreq; k++ {
				sc.Sender = append(sc.Sender, Op{Op: "send", Msg: genMsg(rr, fmt.Sprintf("%s/c/%d", tag, k), false)})
			}
			sc.Sender = append(sc.Sender, Op{Op: "close"})
			sc.Handler = []Op{{Op: "recvall"}}
			if rr.Intn(3) == 0 {
				sc.Handler = append(sc.Handler, Op{Op: pick(rr, "sethdr", "sendhdr"), MD: genMD(rr, 2, true)})
			}
			for k := 0; k < nresp; k++ {
				m := genMsg(rr, fmt.Sprintf("%s/s/%d", tag, k), false)
				sc.Handler = append(sc.Handler, Op{Op: "send", Msg: m, MsgD: msgDesc(m)})
				if rr.Intn(5) == 0 {
					sc.Handler = append(sc.Handler, Op{Op: "settrl", MD: genMD(rr, 2, true)})
				}
			}
			switch rr.Intn(9) {
			case 0, 1, 2:
				sc.Ret = Ret{How: "status", Code: statusCodes[rr.Intn(16)], Msg: "final"}
			case 3:
				// errors that are not statuses, among them the one that ended the handler's own receive loop
				sc.Ret = Ret{How: pick(rr, "plain", "eof", "ueof", "canceled", "deadline", "okcoded"), Msg: "not a status error"}
			}
			if nresp >= 2 && rr.Intn(6) == 0 {
				// a response the transport cannot encode (map key that is not valid UTF-8): whatever the
				// transport makes of it, the call cannot end in success
				for k := range sc.Handler {
					if sc.Handler[k].Op == "send" && k > 1 {
						m := proto.Clone(sc.Handler[k].Msg).(*tpb.Message)
						m.Headers = map[string][]byte{"bad-key-\xff": []byte("v")}
						sc.Handler[k].Msg, sc.Handler[k].MsgD = m, msgDesc(m)
						break
					}
				}
			}
			sc.Receiver = []Op{{Op: "recv"}}
			switch rr.Intn(4) {
			case 0:
				sc.Receiver = []Op{{Op: "header"}, {Op: "recv"}}
			case 1:
				sc.Receiver = []Op{{Op: "recv"}, {Op: "recv"}, {Op: "trailer"}}
			}
			sc.RecvAfterSend = true
			sc.CancelAfterClient = true
			e.Note("%s n=%d %s", c.Name, nresp, sc.Shape())
			var prep func(*Run)
			if rr.Intn(3) == 0 {
				// a caller that keeps one descriptor variable and fills it in anew for its next call as soon as this
				// stream is open: what this call may yield was settled when it was opened
				own := &grpc.StreamDesc{StreamName: "ClientStream", ClientStreams: true}
				prep = func(run *Run) {
					run.streamDescOverride = own
					run.AfterOpen = func() { own.StreamName, own.ClientStreams, own.ServerStreams = "Bidi", true, true }
				}
			}
			run, ok, _ := execScript(c, sc, prep)
			if !ok {
				e.Inconclusive("C08 %s %s: watchdog", c.Name, sc.Shape())
				continue
			}
			e.Eval(fmt.Sprintf("%s|n=%d|%s|%s", c.Name, nresp, sc.Ret.How, sc.Shape()), true)
			judgeCardinality(e, c, run, nresp)
			if i < 2 && ci == 0 {
				e.Sample(map[string]any{"carrier": c.Name, "responses": nresp, "script": sc})
			}
		}
	})

	// unary handler returning a nil response (in-process only: other transports encode nil as an empty message, like the standard one)
	inp := cs.list[0]
	e.Cases("nil-unary", e.N(20, 100), func(i int, r *rand.Rand) {
		sc := &Script{Kind: Unary, UnaryReq: genMsg(r, "nilresp", false), Resp: nil}
		if r.Intn(2) == 0 {
			sc.Handler = []Op{{Op: "sethdr", MD: genMD(r, 2, true)}, {Op: "settrl", MD: genMD(r, 2, true)}}
		}
		run, ok, _ := execScript(inp, sc, nil)
		if !ok {
			e.Inconclusive("C08 nil-unary: watchdog")
			return
		}
		e.Eval(fmt.Sprintf("nil-unary|%d", len(sc.Handler)), true)
		out := run.ClientOutcome()
		if out.Seen && out.OK {
			e.Violate("inproc/unary/nil-response-success", "unary handler returned neither response nor error, client reported success", witness(run))
		}
	})

	// messages that are not protobuf messages (a channel configured with a codec-based cloner carries any type
	// its codec can encode): a handler returning a typed nil pointer and no error has produced no response
	e.Cases("nil-unary-plain-type", e.N(12, 60), func(i int, r *rand.Rand) {
		ch := &inprocgrpc.Channel{}
		ch.WithCloner(inprocgrpc.CodecCloner(plainJSONCodec{}))
		mode := i % 3 // 0: typed nil, no error   1: a response   2: typed nil and an error
		ch.RegisterService(&grpc.ServiceDesc{
			ServiceName: "verif.Plain",
			HandlerType: (*interface{})(nil),
			Methods: []grpc.MethodDesc{{MethodName: "Get", Handler: func(srv interface{}, ctx context.Context, dec func(interface{}) error, _ grpc.UnaryServerInterceptor) (interface{}, error) {
				req := new(plainMsg)
				if err := dec(req); err != nil {
					return nil, err
				}
				switch mode {
				case 0:
					return (*plainMsg)(nil), nil
				case 1:
					return &plainMsg{Text: "re: " + req.Text, N: req.N + 1}, nil
				}
				return (*plainMsg)(nil), status.Error(codes.NotFound, "nothing there")
			}}},
		}, struct{}{})
		req := &plainMsg{Text: fmt.Sprintf("q%d", r.Intn(1000)), N: r.Intn(100)}
		resp := &plainMsg{Text: "previous content", N: -1}
		var err error
		pan := guard(func() { err = ch.Invoke(context.Background(), "/verif.Plain/Get", req, resp) })
		e.Eval(fmt.Sprintf("nil-unary-plain-type|%d", mode), true)
		w := map[string]any{"mode": mode, "err": fmt.Sprint(err), "resp": fmt.Sprintf("%+v", *resp)}
		switch {
		case pan != "":
			e.Violate("inproc/unary/plain-type/panic", trunc(pan, 400), w)
		case mode == 0 && err == nil:
			e.Violate("inproc/unary/plain-type/nil-response-success", "a unary handler returned a typed nil pointer (not a protobuf message) and no error; the client reported success", w)
		case mode == 1 && (err != nil || resp.Text != "re: "+req.Text || resp.N != req.N+1):
			e.Violate("inproc/unary/plain-type/response-lost", fmt.Sprintf("the handler's one response did not arrive: err=%v resp=%+v", err, *resp), w)
		case mode == 2 && status.Code(err) != codes.NotFound:
			e.Violate("inproc/unary/plain-type/error-lost", fmt.Sprintf("the handler failed with NotFound; the client saw %v", err), w)
		}
	})

	// a unary handler whose goroutine ends without returning anything (runtime.Goexit, as t.FailNow does inside
	// a handler under test): no response was produced, so the call does not succeed
	e.Cases("unary-handler-goroutine-exits", e.N(6, 40), func(i int, r *rand.Rand) {
		ch := &inprocgrpc.Channel{}
		ch.RegisterService(&grpc.ServiceDesc{ServiceName: "verif.Exit", HandlerType: (*interface{})(nil),
			Methods: []grpc.MethodDesc{{MethodName: "Get", Handler: func(srv interface{}, ctx context.Context, dec func(interface{}) error, _ grpc.UnaryServerInterceptor) (interface{}, error) {
				req := new(tpb.Message)
				dec(req)
				if i%2 == 0 {
					grpc.SetHeader(ctx, metadata.Pairs("k", "v"))
				}
				runtime.Goexit()
				return nil, nil
			}}}}, struct{}{})
		resp := &tpb.Message{Payload: []byte("previous content")}
		res := make(chan error, 1)
		go func() {
			res <- ch.Invoke(context.Background(), "/verif.Exit/Get", &tpb.Message{Payload: []byte("q")}, resp)
		}()
		var err error
		select {
		case err = <-res:
		case <-time.After(watchdog):
			e.Violate("inproc/unary/handler-goroutine-exited/never-returns", "the handler's goroutine ended without a result; Invoke never returned", nil)
			return
		}
		e.Eval("unary-handler-goroutine-exits", true)
		if err == nil {
			e.Violate("inproc/unary/handler-goroutine-exited/success", fmt.Sprintf("the handler's goroutine ended without producing a response or an error; Invoke reported success (reply object: {%s})", msgDesc(resp)), nil)
		}
	})

	// the same over HTTP: through the channel, and as seen by a plain HTTP caller of either content type when
	// the server side (here a server-level interceptor) produces an untyped nil response and no error
	e.Cases("nil-unary-http", e.N(12, 60), func(i int, r *rand.Rand) {
		for _, c := range cs.list {
			if !c.HTTP {
				continue
			}
			sc := &Script{Kind: Unary, UnaryReq: genMsg(r, "nilresp", false), Resp: nil}
			run, ok, _ := execScript(c, sc, nil)
			if !ok {
				e.Inconclusive("C08 nil-unary-http: watchdog")
				continue
			}
			e.Eval("nil-unary-http|channel|"+c.Name, true)
			if out := run.ClientOutcome(); out.Seen && out.OK {
				e.Violate(c.Name+"/unary/nil-response-success", "unary handler returned neither response nor error, client reported success", witness(run))
			}
		}
		nilInt := func(ctx context.Context, req interface{}, _ *grpc.UnaryServerInfo, _ grpc.UnaryHandler) (interface{}, error) {
			return nil, nil
		}
		// ... whatever the configured error renderer does (the reply is handed to the channel's client side)
		for _, rend := range []string{"default", "writes-nothing"} {
			opts := []httpgrpc.ServerOption{httpgrpc.WithServerUnaryInterceptor(nilInt)}
			if rend == "writes-nothing" {
				opts = append(opts, httpgrpc.ErrorRenderer(func(context.Context, *status.Status, http.ResponseWriter) {}))
			}
			rsrv := httpgrpc.NewServer(opts...)
			rsrv.RegisterService(&ScriptedDesc, &Service{})
			hr := httptest.NewRequest("POST", Unary.Method(), bytes.NewReader(nil))
			hr.Header.Set("Content-Type", httpgrpc.UnaryRpcContentType_V1)
			rec := httptest.NewRecorder()
			if pan := guard(func() { rsrv.ServeHTTP(rec, hr) }); pan != "" {
				continue // a dropped connection: an error for the caller
			}
			resp := rec.Result()
			rb, _ := io.ReadAll(resp.Body)
			ch := &httpgrpc.Channel{BaseURL: mustURL("http://c08.test/"), Transport: rtFunc(func(rq *http.Request) (*http.Response, error) {
				return &http.Response{StatusCode: resp.StatusCode, Status: resp.Status, Header: resp.Header.Clone(), Body: io.NopCloser(bytes.NewReader(rb)), Request: rq, ProtoMajor: 1, ProtoMinor: 1}, nil
			})}
			cerr := ch.Invoke(context.Background(), Unary.Method(), &tpb.Message{}, new(tpb.Message))
			e.Eval("nil-unary-http|renderer|"+rend, true)
			if cerr == nil {
				e.Violate("http-direct/unary/nil-response-success/renderer-"+rend, fmt.Sprintf("the server side produced no response and no error (error renderer: %s); the reply is HTTP %d and the caller reports success", rend, resp.StatusCode), nil)
			}
		}
		srv := httpgrpc.NewServer(httpgrpc.WithServerUnaryInterceptor(nilInt))
		srv.RegisterService(&ScriptedDesc, &Service{})
		for _, ct := range []string{httpgrpc.UnaryRpcContentType_V1, "application/json"} {
			body := []byte{}
			if ct == "application/json" {
				body = []byte("{}")
			}
			hr := httptest.NewRequest("POST", Unary.Method(), bytes.NewReader(body))
			hr.Header.Set("Content-Type", ct)
			rec := httptest.NewRecorder()
			pan := guard(func() { srv.ServeHTTP(rec, hr) })
			e.Eval("nil-unary-http|direct|"+ct, true)
			// a panic here means net/http drops the connection: an error for the caller, which is all that is asked
			gs := rec.Header().Get("X-GRPC-Status")
			if pan == "" && rec.Code == 200 && (gs == "" || strings.HasPrefix(gs, "0:")) {
				e.Violate("http-direct/unary/nil-response-success", fmt.Sprintf("the server side produced no response and no error for a %s request; the reply is HTTP 200 with body %q", ct, trunc(rec.Body.String(), 80)), nil)
			}
		}
	})

	// HTTP: extra request messages on single-request methods
	// the caller's context ends after the single response has arrived, while the handler is still at work and
	// then fails or produces a second response: success is not among the possible results
	e.Cases("context-ends-before-status", e.N(40, 400), func(i int, r *rand.Rand) {
		var c *Carrier
		for _, x := range cs.list {
			if (i%2 == 0) == x.Inproc && (x.Name == "inproc" || x.Name == "http-server") {
				c = x
			}
		}
		if c == nil {
			return
		}
		sc := genCancelScript(r, ClientStream, c.HTTP, "ignore", 1<<20)
		variant := pick(r, "error", "second-response")
		if variant == "error" {
			sc.Ret = Ret{How: "status", Code: uint32(codes.DataLoss), Msg: "failed after responding"}
		} else {
			sc.Ret = Ret{}
			sc.Handler = append(sc.Handler, Op{Op: "send", Msg: &tpb.Message{Payload: []byte("one response too many")}})
		}
		res := runPlaced(c, sc, pick(r, "cancel", "deadline"), placement{"gate", 0})
		if !res.finished || !res.reached {
			e.Inconclusive("C08 context-ends-before-status: placement not reached on %s", c.Name)
			return
		}
		out := res.run.ClientOutcome()
		e.Eval(fmt.Sprintf("context-ends-before-status|%s|%s|ok=%v", c.Name, variant, out.OK), true)
		if _, ran := res.run.HandlerReturn(); ran && out.Seen && out.OK {
			e.Violate(c.Name+"/responses/context-ended/"+variant+"/success", fmt.Sprintf("the single response had arrived, the caller's context ended, the handler then went on (%s): the client reported success with that response", variant), witness(res.run))
		}
	})

	// the caller's context ends and the handler finishes (badly) before the caller asks for its single response
	e.Cases("late-receive-after-context-end", e.N(24, 200), func(i int, r *rand.Rand) {
		var c *Carrier
		for _, x := range cs.list {
			if x.Name == "inproc" {
				c = x
			}
		}
		variant := pick(r, "error", "second-response")
		for rep := 0; rep < 8; rep++ { // what the client finds first is a race between ready select cases: sample it
			sc := &Script{Kind: ClientStream, RecvAfterSend: true}
			sc.Sender = []Op{{Op: "send", Msg: &tpb.Message{Payload: []byte("req")}}, {Op: "close"}}
			sc.Handler = []Op{{Op: "recvall"}, {Op: "send", Msg: &tpb.Message{Payload: []byte("the response")}}, {Op: "gate", Gate: "g"}}
			if variant == "error" {
				sc.Ret = Ret{How: "status", Code: uint32(codes.Aborted), Msg: "failed after responding"}
			} else {
				sc.Handler = append(sc.Handler, Op{Op: "send", Msg: &tpb.Message{Payload: []byte("one response too many")}})
			}
			sc.Receiver = []Op{{Op: "gate", Gate: "late"}, {Op: "recv"}}
			run := c.Svc.NewRun(sc, c.Name)
			ctx, cancel := context.WithCancel(context.Background())
			done := make(chan struct{})
			go func() {
				run.Exec(c.CC, ctx, watchdog)
				close(done)
			}()
			parked := false
			for k := 0; k < 1000 && !parked; k++ {
				for _, ev := range run.Events() {
					if ev.Who == "h" && ev.Op == "gate:g" && ev.Call {
						parked = true
					}
				}
				if !parked {
					time.Sleep(time.Millisecond)
				}
			}
			if !parked {
				// the handler cannot get past its send before the client receives (a stream that buffers nothing):
				// the situation this phase is about does not arise
				cancel()
				run.ReleaseAll()
				<-done
				run.Cancel()
				c.Svc.Forget(run)
				e.Count("late_receive_not_applicable", 1)
				return
			}
			cancel()
			time.Sleep(time.Duration(200+r.Intn(1500)) * time.Microsecond)
			run.Release("g")
			select {
			case <-run.handlerDone:
			case <-time.After(5 * time.Second):
			}
			run.Release("late")
			select {
			case <-done:
			case <-time.After(watchdog):
				run.ReleaseAll()
				<-done
			}
			run.Cancel()
			c.Svc.Forget(run)
			out := run.ClientOutcome()
			e.Eval(fmt.Sprintf("late-receive|%s|ok=%v", variant, out.OK), parked)
			if _, ran := run.HandlerReturn(); parked && ran && out.Seen && out.OK {
				e.Violate("inproc/responses/late-receive/"+variant+"/success", fmt.Sprintf("the caller's context had ended and the handler had gone on (%s) before the caller asked for the response: the client reported success with the first response", variant), witness(run))
				return
			}
		}
	})

	// Header() already waiting in one goroutine when another asks for the response (an interceptor or a metrics
	// hook next to the application's CloseAndRecv): whatever the two share between them, the call with two
	// responses does not succeed and the one with a single response does
	e.Cases("header-waiting-while-receiving", e.N(20, 200), func(i int, r *rand.Rand) {
		for _, c := range []*Carrier{cs.list[0], cs.list[1]} {
			nresp := 1 + i%2
			sc := &Script{Kind: ClientStream}
			sc.Sender = []Op{{Op: "send", Msg: genMsg(r, "hw-req", false)}, {Op: "close"}, {Op: "header"}}
			sc.Receiver = []Op{{Op: "gate", Gate: "header-waiting"}, {Op: "recv"}, {Op: "recv"}}
			sc.Handler = []Op{{Op: "recvall"}, {Op: "gate", Gate: "both-waiting"}}
			for k := 0; k < nresp; k++ {
				sc.Handler = append(sc.Handler, Op{Op: "send", Msg: genMsg(r, fmt.Sprintf("hw-resp-%d", k), false)})
			}
			run := c.Svc.NewRun(sc, c.Name)
			done := make(chan bool, 1)
			go func() {
				ok, _ := run.Exec(c.CC, nil, watchdog)
				done <- ok
			}()
			// the sender's Header() call has started and the log has gone quiet, then the receiver starts, then the handler answers
			quiet := func(want func([]Event) bool) bool {
				last, same := -1, 0
				for k := 0; k < 2000; k++ {
					evs := run.Events()
					if want(evs) {
						if len(evs) == last {
							same++
						} else {
							last, same = len(evs), 0
						}
						if same >= 3 {
							return true
						}
					}
					time.Sleep(time.Millisecond)
				}
				return false
			}
			hw := quiet(func(evs []Event) bool {
				for _, ev := range evs {
					if ev.Who == "cs" && ev.Op == "header" && ev.Call {
						return true
					}
				}
				return false
			})
			run.Release("header-waiting")
			rw := quiet(func(evs []Event) bool {
				for _, ev := range evs {
					if ev.Who == "cr" && ev.Op == "recv" && ev.Call {
						return true
					}
				}
				return false
			})
			run.Release("both-waiting")
			ok := <-done
			run.Cancel()
			c.Svc.Forget(run)
			if !ok {
				run.ReleaseAll()
				e.Inconclusive("C08 header-waiting-while-receiving %s: watchdog", c.Name)
				continue
			}
			e.Eval(fmt.Sprintf("header-waiting|%s|n=%d", c.Name, nresp), hw && rw)
			judgeCardinality(e, c, run, nresp)
		}
	})

	// more than one response on a single-response method, with the transport's reader placed: it has read the
	// second response and handed it over, and is held at the next frame (the OK trailer) until the client's receive
	// has reported the failure; it then goes on and reads the trailer. Whatever the client asks afterwards, the
	// call stays failed: no later receive reports a clean end or hands out a message.
	installHooks()
	e.Cases("surplus-response-then-trailer", e.N(20, 200), func(i int, r *rand.Rand) {
		nresp := pick(r, 2, 2, 2, 3)
		var msgs []*tpb.Message
		for k := 0; k < nresp; k++ {
			msgs = append(msgs, genMsg(r, fmt.Sprintf("surplus-%d-%d", i, k), false))
		}
		tr := &httpgrpc.HttpTrailer{}
		if r.Intn(2) == 0 {
			tr.Metadata = map[string]*httpgrpc.TrailerValues{"t": {Values: []string{"v"}}}
		}
		body := encodeStream(msgs, tr).bytes
		ch := &httpgrpc.Channel{BaseURL: mustURL("http://surplus.test/"), Transport: rtFunc(func(rq *http.Request) (*http.Response, error) {
			go io.Copy(io.Discard, rq.Body)
			h := http.Header{}
			h.Set("Content-Type", httpgrpc.StreamRpcContentType_V1)
			return &http.Response{StatusCode: 200, Header: h, Body: io.NopCloser(bytes.NewReader(body)), Request: rq, ProtoMajor: 1, ProtoMinor: 1}, nil
		})}
		id := fmt.Sprintf("surplus-%d-%d", i, r.Int63())
		plan := newHookPlan()
		plan.parkPt, plan.parkNth = "http.stream.frame", 3
		hookPlans.Store(id, plan)
		defer hookPlans.Delete(id)
		defer plan.Release()
		ctx, cancel := context.WithCancel(metadata.AppendToOutgoingContext(context.Background(), runKey, id))
		defer cancel()
		type res struct {
			first error
			later []error
			pan   string
		}
		out := make(chan res, 1)
		go func() {
			var rs res
			rs.pan = guard(func() {
				st, err := ch.NewStream(ctx, ClientStream.StreamDesc(), ClientStream.Method())
				if err != nil {
					rs.first = err
					return
				}
				st.SendMsg(&tpb.Message{})
				st.CloseSend()
				rs.first = st.RecvMsg(new(tpb.Message))
				// the reader goes on only now
				plan.Release()
				for k := 0; k < 4; k++ {
					time.Sleep(time.Duration(k) * time.Millisecond)
					rs.later = append(rs.later, st.RecvMsg(new(tpb.Message)))
				}
				st.Trailer()
			})
			out <- rs
		}()
		var rs res
		select {
		case rs = <-out:
		case <-time.After(watchdog):
			e.Inconclusive("C08 surplus-response-then-trailer: watchdog")
			return
		}
		placed := false
		select {
		case <-plan.parked:
			placed = true
		default:
		}
		e.Eval(fmt.Sprintf("surplus-then-trailer|n=%d|trailer-md=%v", nresp, len(tr.Metadata) > 0), placed)
		if placed {
			e.Count("reader_held_at_trailer_frame", 1)
		}
		w := map[string]any{"responses": nresp, "first_receive": fmt.Sprint(rs.first), "later_receives": fmt.Sprint(rs.later), "reader_held_at_trailer": placed}
		switch {
		case rs.pan != "":
			e.Violate("http/responses/surplus-then-trailer/panic", trunc(rs.pan, 400), w)
		case rs.first == nil:
			e.Violate("http/responses/surplus-then-trailer/success", fmt.Sprintf("the reply carried %d responses for a single-response method and the receive reported success", nresp), w)
		default:
			for k, err := range rs.later {
				if err == nil || err == io.EOF {
					e.Violate("http/responses/surplus-then-trailer/later-receive", fmt.Sprintf("the receive had failed the call (%v: %d responses on a single-response method); once the transport had read the OK trailer, receive #%d after it returned %v", rs.first, nresp, k+1, err), w)
					break
				}
			}
		}
	})

	// a unary reply that breaks off in transit, or that is not a message at all, is no response: the call fails
	// instead of succeeding with a message the handler never produced
	unaryCutPhase(e, "http/unary/one-response", e.N(6, 60))

	// a unary JSON request whose body holds two documents is two request messages: not a call that succeeds
	jsonSvc := &Service{}
	jsonSrv := httpgrpc.NewServer()
	jsonSrv.RegisterService(&ScriptedDesc, jsonSvc)
	e.Cases("json-two-requests", e.N(12, 100), func(i int, r *rand.Rand) {
		m1, m2 := &tpb.Message{Payload: []byte(fmt.Sprintf("first-%d", i)), Count: 1}, &tpb.Message{Payload: []byte("second"), Count: 2}
		b1, _ := protojson.Marshal(m1)
		b2, _ := protojson.Marshal(m2)
		sep := pick(r, "", " ", "\n", "\r\n")
		two := i%3 != 0
		body := append([]byte{}, b1...)
		if two {
			body = append(append(body, sep...), b2...)
		}
		sc := &Script{Kind: Unary, UnaryReq: m1, Resp: &tpb.Message{Payload: []byte("reply")}}
		run := jsonSvc.NewRun(sc, "http-direct")
		defer jsonSvc.Forget(run)
		hr := httptest.NewRequest("POST", Unary.Method(), bytes.NewReader(body))
		hr.Header.Set("Content-Type", httpgrpc.ApplicationJson)
		hr.Header.Set("X-Verif-Run", run.ID)
		rec := httptest.NewRecorder()
		pan := guard(func() { jsonSrv.ServeHTTP(rec, hr) })
		e.Eval(fmt.Sprintf("json-two-requests|two=%v|sep=%q", two, sep), true)
		w := map[string]any{"body": string(body), "http_status": rec.Code, "grpc_status": rec.Header().Get("X-GRPC-Status")}
		switch {
		case pan != "":
			e.Violate("http-direct/requests/json/panic", trunc(pan, 400), w)
		case two && rec.Code == 200:
			e.Violate("http-direct/requests/json/extra-success", "a unary JSON request carrying two request messages was answered 200", w)
		case !two && rec.Code != 200:
			e.Violate("http-direct/requests/json/single-failed", fmt.Sprintf("a unary JSON request carrying one message was answered %d", rec.Code), w)
		}
	})

	e.Cases("requests", e.N(300, 4000), func(i int, r *rand.Rand) {
		c := []*Carrier{cs.list[1], cs.list[2], decServer, decMux}[i%4]
		k := pick(r, 1, 2, 2, 3)
		tag := fmt.Sprintf("%016x", r.Uint64())
		sc := &Script{Kind: ServerStream}
		for j := 0; j < k; j++ {
			sc.Sender = append(sc.Sender, Op{Op: "send", Msg: genMsg(r, fmt.Sprintf("%s/c/%d", tag, j), false)})
		}
		sc.Sender = append(sc.Sender, Op{Op: "close"})
		nresp := r.Intn(3)
		sc.Handler = []Op{{Op: "recv"}}
		for j := 0; j < nresp; j++ {
			sc.Handler = append(sc.Handler, Op{Op: "send", Msg: genMsg(r, fmt.Sprintf("%s/s/%d", tag, j), false)})
		}
		sc.Ret = Ret{How: "recverr"}
		sc.Receiver = []Op{{Op: "recvall"}}
		sc.RecvAfterSend = true
		sc.CancelAfterClient = true
		// the method takes a single request, but the raw client stream is allowed to send more
		run := c.Svc.NewRun(sc, c.Name)
		run.streamDescOverride = &grpc.StreamDesc{ClientStreams: true, ServerStreams: true}
		ok, _ := run.Exec(c.CC, nil, watchdog)
		run.Cancel()
		c.Svc.Forget(run)
		if !ok {
			run.ReleaseAll()
			e.Inconclusive("C08 requests %s k=%d: watchdog", c.Name, k)
			return
		}
		e.Eval(fmt.Sprintf("requests|%s|k=%d|resp=%d", c.Name, k, nresp), true)
		hr := run.Rets("h", "recv")
		out := run.ClientOutcome()
		if len(hr) == 0 {
			return
		}
		first := hr[0]
		switch {
		case k == 1 && first.Err != nil:
			e.Violate(c.Name+"/requests/single-rejected", fmt.Sprintf("one request sent, handler's receive failed: %v", first.Err), witness(run))
		case k == 1 && (!out.Seen || !out.OK):
			e.Violate(c.Name+"/requests/single-failed", fmt.Sprintf("one request sent, call failed: %v", out.Err), witness(run))
		case k >= 2 && first.Err == nil:
			e.Violate(c.Name+"/requests/extra-accepted", fmt.Sprintf("client sent %d request messages to a single-request method; the handler's first receive succeeded", k), witness(run))
		case k >= 2 && out.Seen && out.OK:
			e.Violate(c.Name+"/requests/extra-success", fmt.Sprintf("client sent %d request messages to a single-request method and the call succeeded", k), witness(run))
		case k >= 2 && first.Err != nil && status.Code(first.Err) == codes.OK:
			e.Violate(c.Name+"/requests/extra-ok-code", fmt.Sprintf("handler's receive error for extra requests carries code OK: %v", first.Err), witness(run))
		}
	})
}

func judgeCardinality(e *core.Env, c *Carrier, run *Run, nresp int) {
	out := run.ClientOutcome()
	if len(out.Panics) > 0 {
		e.Violate(c.Name+"/responses/panic", out.Panics[0], witness(run))
		return
	}
	herr, returned := run.HandlerReturn()
	if !out.Seen || !returned {
		return
	}
	var hsent []*tpb.Message
	for _, ev := range run.Events() {
		if ev.Who == "h" && ev.Op == "send" && ev.Call {
			hsent = append(hsent, ev.Msg)
		}
	}
	recvs := append(run.Rets("cr", "recv"), run.Rets("cs", "recv")...)
	sig := fmt.Sprintf("%s/responses/n=%d", c.Name, min(nresp, 2))
	// whatever the first receive said, a later receive never hands out another message
	for k := 1; k < len(recvs); k++ {
		if recvs[k].Pan == "" && (recvs[k].Err == nil || recvs[k].Msg != nil) {
			e.Violate(sig+"/later-receive", fmt.Sprintf("receive #%d on a single-response call returned (%v, %v) after the first one had returned %v", k+1, recvs[k].Msg != nil, recvs[k].Err, recvs[0].Err), witness(run))
			return
		}
	}
	if out.OK {
		if nresp != 1 || herr != nil {
			e.Violate(sig+"/success", fmt.Sprintf("handler emitted %d responses and returned %v; client reported success", nresp, herr), witness(run))
			return
		}
		if len(recvs) > 0 && !sameMsg(recvs[0].Msg, hsent[0]) {
			e.Violate(sig+"/wrong-message", "client's single response differs from the one sent", witness(run))
		}
		return
	}
	if nresp == 1 && herr == nil {
		e.Violate(sig+"/failed", fmt.Sprintf("handler emitted exactly one response and returned nil; client saw %v", out.Err), witness(run))
		return
	}
	if herr != nil && nresp <= 1 {
		// the handler's own status must win (C02) - checked there; here only that it is an error
		return
	}
}
