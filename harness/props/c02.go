package props

import (
	"context"
	"fmt"
	"io"
	"math/rand"
	"runtime"
	"strings"
	"sync"
	"sync/atomic"
	"time"

	tpb "github.com/fullstorydev/grpchan/grpchantesting"
	"github.com/fullstorydev/grpchan/httpgrpc"
	spb "google.golang.org/genproto/googleapis/rpc/status"
	"google.golang.org/grpc"
	"google.golang.org/grpc/codes"
	"google.golang.org/grpc/status"
	"google.golang.org/protobuf/proto"
	"google.golang.org/protobuf/types/descriptorpb"

	"verifharness/core"
)

func init() { core.Register("C02", checkC02) }

// expectedStatus is what the standard transport makes of a handler's return
// value.
func expectedStatus(ret Ret) *spb.Status {
	switch ret.How {
	case "", "ok":
		return &spb.Status{}
	case "status":
		return &spb.Status{Code: int32(ret.Code), Message: ret.Msg, Details: ret.Details}
	case "plain":
		return &spb.Status{Code: int32(codes.Unknown), Message: ret.Msg}
	case "eof":
		return &spb.Status{Code: int32(codes.Unknown), Message: io.EOF.Error()}
	case "ueof":
		return &spb.Status{Code: int32(codes.Unknown), Message: io.ErrUnexpectedEOF.Error()}
	case "canceled":
		return &spb.Status{Code: int32(codes.Canceled), Message: "context canceled"}
	case "deadline":
		return &spb.Status{Code: int32(codes.DeadlineExceeded), Message: "context deadline exceeded"}
	case "status-over-ctx":
		return &spb.Status{Code: int32(ret.Code), Message: ret.Msg}
	}
	return nil
}

func genRet(r *rand.Rand) Ret {
	switch r.Intn(10) {
	case 0:
		return Ret{How: "plain", Msg: pick(r, "plain failure", "", "boom: 42", "ünï", "a\tb")}
	case 1:
		return Ret{How: pick(r, "eof", "ueof", "canceled", "deadline")}
	case 2:
		if r.Intn(3) == 0 {
			// a status of its own ("Unavailable: backend timed out") on top of a context error as its cause
			return Ret{How: "status-over-ctx", Code: uint32(pick(r, codes.Unavailable, codes.Aborted, codes.ResourceExhausted)), Msg: "backend timed out"}
		}
	}
	ret := Ret{How: "status", Code: statusCodes[r.Intn(len(statusCodes))]}
	switch r.Intn(12) {
	case 0:
		ret.Msg = invalidUTF8Msgs[r.Intn(len(invalidUTF8Msgs))]
	case 1:
		ret.Msg = headerHostileMsgs[r.Intn(len(headerHostileMsgs))]
	default:
		ret.Msg = hostileStatusMsgs[r.Intn(len(hostileStatusMsgs))]
	}
	if r.Intn(3) == 0 {
		ret.Details = genDetails(r)
		ret.NDet = len(ret.Details)
	}
	return ret
}

// genStatusScript: a delivery script whose handler fails at a chosen point.
func genStatusScript(r *rand.Rand, kind Kind, half bool) *Script {
	s := genDeliveryScript(r, kind, half, false)
	if r.Intn(8) == 0 {
		return s // success case stays in the mix
	}
	s.Ret = genRet(r)
	if kind == Unary {
		return s
	}
	// cut the handler's sends after p of them
	var sends []int
	for i, o := range s.Handler {
		if o.Op == "send" {
			sends = append(sends, i)
		}
	}
	p := r.Intn(len(sends) + 1)
	if p < len(sends) && r.Intn(3) != 0 { // otherwise: error after the last response
		cut := sends[p]
		var h []Op
		for i, o := range s.Handler {
			if i >= cut && o.Op == "send" {
				continue
			}
			h = append(h, o)
		}
		s.Handler = h
	}
	if r.Intn(3) == 0 {
		s.Handler = append(s.Handler, Op{Op: "settrl", MD: genMD(r, 2, true)})
	}
	if r.Intn(2) == 0 {
		// callers may ask again after the end: the answer does not turn into a clean end of stream
		s.Receiver = append(s.Receiver, Op{Op: "recv"}, Op{Op: "recv"})
	}
	return s
}

func statusProtoOf(err error) *spb.Status {
	if err == nil {
		return &spb.Status{}
	}
	return status.Convert(err).Proto()
}

func sameStatus(got, want *spb.Status) (bool, string) {
	if got.Code != want.Code {
		return false, fmt.Sprintf("code: got %d want %d", got.Code, want.Code)
	}
	if normStatusMsg(got.Message) != normStatusMsg(want.Message) {
		return false, fmt.Sprintf("message: got %q want %q", trunc(got.Message, 120), trunc(want.Message, 120))
	}
	if len(got.Details) != len(want.Details) {
		return false, fmt.Sprintf("details: got %d want %d", len(got.Details), len(want.Details))
	}
	for i := range got.Details {
		if !proto.Equal(got.Details[i], want.Details[i]) {
			return false, fmt.Sprintf("detail #%d differs: got %s want %s", i, got.Details[i].TypeUrl, want.Details[i].TypeUrl)
		}
	}
	return true, ""
}

func trunc(s string, n int) string {
	if len(s) > n {
		return s[:n] + "…"
	}
	return s
}

// statusMsgClass classifies a status message for known-finding signatures.
func statusMsgClass(m string) string {
	switch {
	case strings.ContainsAny(m, "\r\n"):
		return "crlf"
	case m != strings.TrimSpace(m):
		return "outer-blank"
	case normStatusMsg(m) != m:
		return "invalid-utf8"
	case len(m) > 4096:
		return "long"
	}
	for _, c := range m {
		if c < 0x20 || c == 0x7f {
			return "ctl"
		}
		if c > 0x7e {
			return "non-ascii"
		}
	}
	return "plain"
}

// statusOracle compares the client's terminal outcome with the handler's
// return value. It returns (signature suffix, problem) or "" when held.
func statusOracle(run *Run) (string, string) {
	out := run.ClientOutcome()
	if len(out.Panics) > 0 {
		return "panic", out.Panics[0]
	}
	herr, returned := run.HandlerReturn()
	if !out.Seen || !returned {
		return "", ""
	}
	want := expectedStatus(run.S.Ret)
	if run.S.Ret.How == "ctxerr" {
		want = statusProtoOf(status.FromContextError(herr).Err())
	}
	if want == nil {
		return "", ""
	}
	got := &spb.Status{}
	if !out.OK {
		got = status.Convert(out.Err).Proto()
	}
	if herr != nil && out.OK {
		return "success-despite-error", fmt.Sprintf("handler returned %v (%s) but the client reported success", herr, run.S.Ret.How)
	}
	if !out.OK {
		// receives issued after the failure was reported
		failed := false
		for _, ev := range append(run.Rets("cr", "recv"), run.Rets("cs", "recv")...) {
			if failed && ev.Pan == "" && (ev.Err == nil || ev.Err == io.EOF) {
				return "clean-end-after-failure", fmt.Sprintf("a receive had returned the failure (%v); a later receive returned %v", out.Err, ev.Err)
			}
			if ev.Err != nil && ev.Err != io.EOF {
				failed = true
			}
		}
	}
	if out.OK && herr == nil {
		// receives issued after the clean end was reported: the outcome stays what it was
		ended := false
		for _, ev := range append(run.Rets("cr", "recv"), run.Rets("cs", "recv")...) {
			if ended && ev.Pan == "" && ev.Err != io.EOF {
				return "failure-after-clean-end", fmt.Sprintf("the handler returned nil and a receive had reported the clean end of the stream; a later receive returned %v", ev.Err)
			}
			if ev.Err == io.EOF {
				ended = true
			}
		}
	}
	if ok, why := sameStatus(got, want); !ok {
		cls := "status"
		if herr != nil {
			cls = run.S.Ret.How + "/" + statusMsgClass(want.Message)
		}
		return "mismatch/" + cls, fmt.Sprintf("handler returned %s code=%d; client saw err=%v; %s", run.S.Ret.How, want.Code, trunc(fmt.Sprint(out.Err), 200), why)
	}
	return "", ""
}

func checkC02(e *core.Env) {
	curEnv = e
	e.SetRule("seeded scripts whose handler returns one of: 20 codes x hostile messages x 0..4 details, plain errors, io.EOF, context errors, at a chosen point (before / between / after responses, after SetTrailer), on in-process and both HTTP carriers; plus undecodable / unencodable responses and the GC-pressure schedule; oracle: status.Convert(client error) == expected(handler error) as the standard transport maps it; distinct = (carrier, kind, return class, message class, cut position)")
	e.Assume("status messages are compared modulo U+FFFD sanitising; scripts on which the standard transport itself fails the oracle are calibrated out")
	cs := stdCarriers()
	defer cs.Close()

	// (a fourth carrier for the status scripts: an HTTP carrier whose bodies arrive three bytes per read in both
	// directions, as behind a re-chunking proxy)
	pieces := NewHTTPServer(&Service{}, carrierOpt{}).InPieces(3)
	defer pieces.Close()
	statusCarriers := append(append([]*Carrier{}, cs.list...), pieces)
	n := e.N(1200, 20000)
	e.Cases("status", n, func(i int, r *rand.Rand) {
		kind := Kind(i % 4)
		for ci, c := range statusCarriers {
			if c == pieces && (i%3 != 0 || kind == Unary) {
				continue // (streams only: unary calls have no frames, and F-C02-1 is recorded per carrier name)
			}
			rr := rand.New(rand.NewSource(r.Int63() + int64(ci)))
			sc := genStatusScript(rr, kind, c.HTTP)
			if rr.Intn(8) == 0 {
				sc.CallTimeout = pick(rr, time.Hour, 30*time.Hour) // a caller with a distant deadline
			}
			sc.ViaCtx = rr.Intn(6) == 0 // handler metadata through grpc.SetTrailer(ctx, ...) and friends
			if rr.Intn(3) == 0 {
				// callers that ask for the reply's metadata through call options: the status is the same
				sc.NHdrOpt, sc.NTrlOpt = rr.Intn(2), rr.Intn(2)
			}
			e.Note("%s %s msg=%q", c.Name, sc.Shape(), trunc(sc.Ret.Msg, 40))
			ref, ok, _ := execScript(cs.ref, sc, nil)
			if !ok {
				e.Count("calibrated_out", 1)
				continue
			}
			if sig, _ := statusOracle(ref); sig != "" {
				e.Count("calibrated_out", 1)
				continue
			}
			run, ok, dump := execScript(c, sc, nil)
			if !ok {
				hangVerdict(e, "C02", cs, c, sc, run, dump)
				continue
			}
			if p := reachProblem(cs, c, sc, run); p != "" {
				e.Violate(fmt.Sprintf("%s/%s/never-reached-handler", c.Name, kindClass(kind)), p, witness(run))
			}
			e.Eval(fmt.Sprintf("%s|%s|%s|%d|%s|%d", c.Name, kind, sc.Ret.How, sc.Ret.Code, statusMsgClass(sc.Ret.Msg), len(sc.Handler)), sc.Ret.How != "ok" && sc.Ret.How != "")
			e.Count("events", int64(len(run.Events())))
			if sig, prob := statusOracle(run); sig != "" {
				e.Violate(fmt.Sprintf("%s/%s/%s", c.Name, kindClass(kind), sig), prob, witness(run))
			}
			if i < 2 && ci == 1 {
				e.Sample(map[string]any{"carrier": c.Name, "script": sc})
			}
		}
	})

	// responses that cannot be decoded by the client / encoded by the server
	// the caller's context ends after the single response has arrived and before the status has: the call is
	// cancelled or it reports what the handler returned, never success for a handler that failed
	e.Cases("cancel-after-response", e.N(40, 400), func(i int, r *rand.Rand) {
		var c *Carrier
		for _, x := range cs.list {
			if (i%2 == 0) == x.Inproc && (x.Inproc || x.Name == "http-server") {
				c = x
			}
		}
		if c == nil {
			return
		}
		sc := genCancelScript(r, ClientStream, c.HTTP, "ignore", 1<<20)
		sc.Ret = Ret{How: "status", Code: uint32(codes.DataLoss), Msg: "failed after responding"}
		res := runPlaced(c, sc, pick(r, "cancel", "deadline"), placement{"gate", 0})
		if !res.finished || !res.reached {
			e.Inconclusive("C02 cancel-after-response: placement not reached on %s", c.Name)
			return
		}
		out := res.run.ClientOutcome()
		herr, ran := res.run.HandlerReturn()
		e.Eval(fmt.Sprintf("cancel-after-response|%s|ok=%v", c.Name, out.OK), true)
		if ran && herr != nil && out.Seen && out.OK {
			e.Violate(c.Name+"/stream/success-despite-error/context-ended-before-status", fmt.Sprintf("the handler sent its response and then failed with %v; the caller's context ended while the status was outstanding and the client reported success", herr), witness(res.run))
		}
	})

	// the caller's context ends while the handler of a response stream is busy; the handler then fails. The
	// receives report the cancellation or the handler's status, never the clean end of a stream whose handler failed
	// (the outcome is a race between the context and the final frames, so each script runs several times)
	e.Cases("cancel-then-handler-fails", e.N(30, 300), func(i int, r *rand.Rand) {
		// (in-process: over HTTP/1.1 a handler that is not reading its request learns of the caller's
		// cancellation only when the connection goes away, which C04 places and judges)
		c := cs.list[0]
		if !c.Inproc {
			return
		}
		kind := pick(r, ServerStream, Bidi)
		for rep := 0; rep < 6; rep++ {
			// the handler notices that the caller went away and gives up with a status of its own; the client asks
			// for the outcome only after that (first receive after the handler has returned), several times
			sc := &Script{Kind: kind, Ret: Ret{How: "status", Code: uint32(codes.Aborted), Msg: "handler gave up"}}
			sc.Sender = []Op{{Op: "send", Msg: &tpb.Message{Payload: []byte("req")}}}
			if c.HTTP || kind == ServerStream {
				sc.Sender = append(sc.Sender, Op{Op: "close"})
			}
			sc.Handler = []Op{{Op: "recv"}, {Op: "signal", Gate: "handler-waiting"}, {Op: "waitctx"}}
			sc.Receiver = []Op{{Op: "gate", Gate: "handler-returned"}, {Op: "recv"}, {Op: "recv"}, {Op: "recv"}}
			run := c.Svc.NewRun(sc, c.Name)
			parent, cancel := context.WithCancel(context.Background())
			done := make(chan bool, 1)
			go func() {
				ok, _ := run.Exec(c.CC, parent, watchdog)
				done <- ok
			}()
			reached := false
			select {
			case <-run.gate("handler-waiting"):
				reached = true
			case <-time.After(watchdog):
			}
			cancel()
			if reached {
				select {
				case <-run.handlerDone:
				case <-time.After(watchdog):
					reached = false
				}
			}
			time.Sleep(time.Duration(r.Intn(3)) * time.Millisecond)
			run.Release("handler-returned")
			ok := <-done
			run.Cancel()
			c.Svc.Forget(run)
			if !ok || !reached {
				run.ReleaseAll()
				e.Inconclusive("C02 cancel-then-handler-fails: placement not reached on %s", c.Name)
				return
			}
			herr, ran := run.HandlerReturn()
			e.Eval(fmt.Sprintf("cancel-then-handler-fails|%s|%s", c.Name, kind), true)
			for _, ev := range run.Rets("cr", "recv") {
				if ran && herr != nil && ev.Pan == "" && (ev.Err == io.EOF || ev.Err == nil) {
					e.Violate(c.Name+"/stream/clean-end-despite-error/context-ended-then-handler-failed", fmt.Sprintf("the caller's context ended while the %s handler was busy; the handler then failed with %v; a receive issued after that returned %v", kind, herr, ev.Err), witness(run))
					return
				}
			}
		}
	})

	// codes that the standard transport cannot carry (calibration would drop them) are judged directly: a unary
	// call reports exactly the code and message the handler returned
	e.Cases("big-codes", e.N(24, 240), func(i int, r *rand.Rand) {
		c := cs.list[i%len(cs.list)]
		code := pick(r, uint32(1<<31-1), uint32(1<<31), uint32(1<<31+5), uint32(1<<32-1), uint32(17), uint32(1000))
		sc := genDeliveryScript(r, Unary, c.HTTP, false)
		sc.Ret = Ret{How: "status", Code: code, Msg: pick(r, "m", "a:b", "")}
		run, ok, dump := execScript(c, sc, nil)
		if !ok {
			hangVerdict(e, "C02", cs, c, sc, run, dump)
			return
		}
		e.Eval(fmt.Sprintf("big-codes|%s|%d", c.Name, code), true)
		out := run.ClientOutcome()
		if _, ran := run.HandlerReturn(); !ran || !out.Seen {
			return
		}
		st, isStatus := status.FromError(out.Err)
		if out.OK || !isStatus || uint32(st.Code()) != code || st.Message() != sc.Ret.Msg {
			e.Violate(fmt.Sprintf("%s/unary/mismatch/big-code", c.Name), fmt.Sprintf("handler returned code %d message %q; client saw %v", code, sc.Ret.Msg, out.Err), witness(run))
		}
	})

	e.Cases("codec", e.N(40, 200), func(i int, r *rand.Rand) {
		kind := Kind(i % 4)
		for _, c := range cs.list {
			sc := genDeliveryScript(r, kind, c.HTTP, false)
			sc.CancelAfterClient = true
			if len(sc.Receiver) > 0 {
				// an application abandons the call at the first receive error
				sc.Receiver = append(sc.Receiver, Op{Op: "cancel"})
			}
			mode := pick(r, "undecodable", "unencodable")
			var bad proto.Message
			if mode == "undecodable" {
				// field 7 is a message (Any) in the receiver's type: garbage bytes there cannot be decoded
				bad = &descriptorpb.FieldDescriptorProto{DefaultValue: proto.String("\xff\xff\xff\xff")}
			} else {
				bad = &tpb.Message{Headers: map[string][]byte{"bad\xffkey": []byte("v")}}
			}
			run := c.Svc.NewRun(sc, c.Name)
			replaced := false
			run.OnHandler = nil
			if kind == Unary {
				if mode == "undecodable" {
					continue // a unary handler of the generated type cannot return another type
				}
				sc.Resp = bad.(*tpb.Message)
				replaced = true
			} else {
				for j := range sc.Handler {
					if sc.Handler[j].Op == "send" {
						if m, ok := bad.(*tpb.Message); ok {
							sc.Handler[j].Msg = m
						} else {
							sc.Handler[j] = Op{Op: "sendraw", Gate: "undecodable"}
						}
						replaced = true
						break
					}
				}
			}
			if !replaced {
				c.Svc.Forget(run)
				continue
			}
			rawMsgs.Store(run.ID, bad)
			ok, _ := run.Exec(c.CC, nil, watchdog)
			run.Cancel()
			rawMsgs.Delete(run.ID)
			c.Svc.Forget(run)
			if !ok {
				run.ReleaseAll()
				e.Inconclusive("C02 codec %s %s: watchdog", c.Name, sc.Shape())
				continue
			}
			e.Eval(fmt.Sprintf("codec|%s|%s|%s", c.Name, kind, mode), true)
			out := run.ClientOutcome()
			if c.Inproc && mode == "unencodable" {
				continue // nothing is encoded in process; delivery intact is success
			}
			// the response was lost: the client must not report a complete success
			got := 0
			for _, ev := range run.Events() {
				if (ev.Who == "cr" || ev.Who == "cs") && (ev.Op == "recv" || ev.Op == "invoke") && !ev.Call && ev.Err == nil {
					got++
				}
			}
			sent := 0
			for _, o := range sc.Handler {
				if o.Op == "send" || o.Op == "sendraw" {
					sent++
				}
			}
			if kind == Unary {
				sent = 1
			}
			if out.Seen && out.OK && got < sent {
				e.Violate(fmt.Sprintf("%s/%s/success-despite-%s", c.Name, kindClass(kind), mode), fmt.Sprintf("handler attempted %d responses, one %s; client received %d and reported success", sent, mode, got), witness(run))
			}
		}
	})

	// an error whose status claims code OK (custom error type): the handler did fail, so no transport may report success.
	// (Not calibrated: the standard transport passes the OK code through.)
	e.Cases("ok-coded-error", e.N(40, 400), func(i int, r *rand.Rand) {
		kind := Kind(i % 4)
		for _, c := range cs.list {
			sc := genStatusScript(r, kind, c.HTTP)
			sc.Ret = Ret{How: "okcoded", Msg: "failed but claims OK"}
			run, ok, _ := execScript(c, sc, nil)
			if !ok {
				e.Inconclusive("C02 ok-coded %s: watchdog", c.Name)
				continue
			}
			e.Eval(fmt.Sprintf("okcoded|%s|%s|%d", c.Name, kind, len(sc.Handler)), true)
			out := run.ClientOutcome()
			if herr, ret := run.HandlerReturn(); ret && herr != nil && out.Seen && out.OK {
				e.Violate(fmt.Sprintf("%s/%s/success-despite-ok-coded-error", c.Name, kindClass(kind)), "handler returned a non-nil error (whose status carries code OK); the client reported success", witness(run))
			}
		}
	})

	// responses cut short (a sample of the C07 cut points, judged for the status the client reports)
	e.Cases("truncated", e.N(60, 600), func(i int, r *rand.Rand) {
		nm := r.Intn(4)
		var msgs []*tpb.Message
		for k := 0; k < nm; k++ {
			msgs = append(msgs, &tpb.Message{Payload: []byte(fmt.Sprintf("t%d-%d", i, k))})
		}
		ret := genRet(r)
		if ret.How != "status" || ret.Code > 16 {
			ret = Ret{How: "status", Code: uint32(1 + r.Intn(16)), Msg: "handler status"}
		}
		ret.Msg = normStatusMsg(ret.Msg)
		tr := &httpgrpc.HttpTrailer{Code: int32(ret.Code), Message: ret.Msg, Details: ret.Details}
		if r.Intn(3) == 0 {
			tr = &httpgrpc.HttpTrailer{Message: "OK"}
		}
		fb := encodeStream(msgs, tr)
		lastEnd := 0
		if len(fb.msgEnds) > 0 {
			lastEnd = fb.msgEnds[len(fb.msgEnds)-1]
		}
		cuts := []int{0, lastEnd, lastEnd + 1, lastEnd + 4, lastEnd + 5, len(fb.bytes) - 1, len(fb.bytes)}
		for k := 0; k < 3; k++ {
			cuts = append(cuts, r.Intn(len(fb.bytes)+1))
		}
		for _, cut := range cuts {
			if cut < 0 || cut > len(fb.bytes) {
				continue
			}
			for _, end := range []error{io.EOF, io.ErrUnexpectedEOF} {
				res := feedClient(&cutBody{data: append([]byte{}, fb.bytes[:cut]...), endErr: end}, 200)
				e.Eval(fmt.Sprintf("truncated|%d|%v|%v", cut-lastEnd, end == io.EOF, tr.Code == 0), true)
				w := map[string]any{"messages": nm, "trailer_code": tr.Code, "body_len": len(fb.bytes), "cut": cut, "client_err": fmt.Sprint(res.err)}
				if res.pan != "" {
					e.Violate("http/stream/truncated/panic", trunc(res.pan, 400), w)
					continue
				}
				success := res.err == io.EOF
				switch {
				case cut < len(fb.bytes) && success:
					e.Violate("http/stream/truncated/success", fmt.Sprintf("reply cut at byte %d of %d (the trailer with status %d was lost): the client reported a clean end of stream", cut, len(fb.bytes), tr.Code), w)
				case cut == len(fb.bytes) && tr.Code == 0 && !success:
					e.Violate("http/stream/complete/failed", fmt.Sprintf("complete OK reply reported as %v", res.err), w)
				case cut == len(fb.bytes) && tr.Code != 0:
					if ok, why := sameStatus(status.Convert(res.err).Proto(), &spb.Status{Code: tr.Code, Message: tr.Message, Details: tr.Details}); !ok || success {
						e.Violate("http/stream/complete/status", "complete reply with an error trailer: "+why, w)
					}
				}
			}
		}
	})

	unaryCutPhase(e, "http/unary", e.N(6, 60))

	checkC02GC(e)
}

func kindClass(k Kind) string {
	if k == Unary {
		return "unary"
	}
	return "stream"
}

// rawMsgs lets a handler op send a non-Message proto (run id -> message).
var rawMsgs sync.Map

// checkC02GC: the client's last use of an HTTP stream is a blocking receive;
// the handler replies only after two GC cycles and a sentinel finalizer have
// run. The outcome must still be the handler's.
func checkC02GC(e *core.Env) {
	curEnv = e
	svc := &Service{}
	carriers := []*Carrier{NewHTTPServer(svc, carrierOpt{}), NewInproc(&Service{}, carrierOpt{})}
	defer func() {
		for _, c := range carriers {
			c.Close()
		}
	}()
	e.Cases("gc", e.N(12, 120), func(i int, r *rand.Rand) {
		c := carriers[i%2]
		kind := pick(r, ClientStream, ServerStream, Bidi)
		sc := genDeliveryScript(r, kind, true, false)
		run, _, err, ok := gcSchedule(e, "C02", c, sc)
		if !ok {
			return
		}
		e.Eval(fmt.Sprintf("gc|%s|%s", c.Name, kind), true)
		e.Count("gc_schedules", 1)
		if err != nil {
			e.Violate(fmt.Sprintf("%s/stream/gc-cancels-live-call", c.Name), fmt.Sprintf("handler replied OK after a GC cycle while the client was blocked in its final receive; client saw %v", err), witness(run))
		}
	})
}

// gcSchedule runs sc with a client whose last use of the stream is a blocking receive (as in generated
// CloseAndRecv code), makes the handler wait before its first reply, forces garbage collections (with a sentinel
// finalizer as proof that finalizers ran) while the client is blocked, then lets the handler go on. It returns
// what the client's final receive loop obtained.
func gcSchedule(e *core.Env, prop string, c *Carrier, sc *Script) (run *Run, got []*tpb.Message, err error, ok bool) {
	// handler: consume, wait for the gate, then reply
	var h []Op
	gated := false
	for _, o := range sc.Handler {
		if o.Op == "send" && !gated {
			h = append(h, Op{Op: "gate", Gate: "gc"})
			gated = true
		}
		h = append(h, o)
	}
	if !gated {
		h = append(h, Op{Op: "gate", Gate: "gc"})
	}
	sc.Handler = h
	run = c.Svc.NewRun(sc, c.Name)
	defer c.Svc.Forget(run)
	res := make(chan lastUseResult, 1)
	var started atomic.Bool
	go lastUseRecv(c.CC, run, &started, res)
	// wait (logically) until the client is inside its final receive
	for !started.Load() {
		select {
		case lr := <-res:
			e.Inconclusive("%s gc %s %s: client ended before its final receive: %v", prop, c.Name, sc.Shape(), lr.err)
			run.ReleaseAll()
			return run, nil, nil, false
		default:
			time.Sleep(time.Millisecond)
		}
	}
	time.Sleep(20 * time.Millisecond)
	// GC pressure: three cycles and a sentinel finalizer
	fin := make(chan struct{})
	func() {
		s := new([64]byte)
		runtime.SetFinalizer(s, func(*[64]byte) { close(fin) })
	}()
	for k := 0; k < 3; k++ {
		runtime.GC()
	}
	select {
	case <-fin:
	case <-time.After(10 * time.Second):
		e.Inconclusive("%s gc: sentinel finalizer did not run", prop)
	}
	time.Sleep(20 * time.Millisecond)
	run.Release("gc")
	select {
	case lr := <-res:
		return run, lr.msgs, lr.err, true
	case <-time.After(watchdog):
		e.Inconclusive("%s gc %s: watchdog", prop, c.Name)
		run.ReleaseAll()
		return run, nil, nil, false
	}
}

type lastUseResult struct {
	msgs []*tpb.Message
	err  error
}

// lastUseRecv mirrors generated CloseAndRecv code: after the last statement
// nothing refers to the stream any more.
//
//go:noinline
func lastUseRecv(cc grpc.ClientConnInterface, run *Run, started *atomic.Bool, res chan<- lastUseResult) {
	ctx := outgoingCtx(run)
	st, err := cc.NewStream(ctx, run.S.Kind.StreamDesc(), run.S.Kind.Method())
	if err != nil {
		res <- lastUseResult{err: err}
		return
	}
	for _, o := range run.S.Sender {
		switch o.Op {
		case "send":
			if err := st.SendMsg(o.Msg); err != nil {
				res <- lastUseResult{err: fmt.Errorf("send: %w", err)}
				return
			}
		case "close":
			st.CloseSend()
		}
	}
	started.Store(true)
	msgs, err := finalRecv(st, run.S.Kind.ServerStreams())
	res <- lastUseResult{msgs: msgs, err: err}
}

//go:noinline
func finalRecv(st grpc.ClientStream, multi bool) ([]*tpb.Message, error) {
	if !multi {
		// the stream value is dead once this call has loaded its receiver
		m := new(tpb.Message)
		if err := st.RecvMsg(m); err != nil {
			return nil, err
		}
		return []*tpb.Message{m}, nil
	}
	var got []*tpb.Message
	for {
		m := new(tpb.Message)
		if err := st.RecvMsg(m); err != nil {
			if err == io.EOF {
				return got, nil
			}
			return got, err
		}
		got = append(got, m)
	}
}
