package props

import (
	"bytes"
	"encoding/json"
	"fmt"
	"go/parser"
	"go/token"
	"math/rand"
	"os"
	"os/exec"
	"path/filepath"
	"sort"
	"strconv"
	"strings"
	"time"

	_ "github.com/fullstorydev/grpchan/grpchantesting" // registers test.proto
	"google.golang.org/protobuf/proto"
	"google.golang.org/protobuf/reflect/protodesc"
	"google.golang.org/protobuf/reflect/protoreflect"
	"google.golang.org/protobuf/reflect/protoregistry"
	"google.golang.org/protobuf/types/descriptorpb"
	"google.golang.org/protobuf/types/pluginpb"

	"verifharness/core"
)

func init() { core.Register("C19", checkC19) }

const genModule = "example.com/gen"

type c19Method struct {
	Name        string // proto name
	GoName      string
	CS, SS      bool
	In, Out     string // Go type expressions as seen from the service's package
	StreamIndex int    // rank among the service's streaming methods (-1 for unary)
}

type c19Service struct {
	Name, GoName, FullName string
	Methods                []c19Method
}

type c19File struct {
	Name     string // proto file name, "<dir>/<base>.proto"
	Dir      string // Go package dir below the module root
	PkgName  string // Go package name
	Proto    string // proto package
	Messages []string
	Services []c19Service
	FD       *descriptorpb.FileDescriptorProto
	UsesDep  bool
	UsesDep2 bool
}

func camelCase(s string) string {
	if s == "" {
		return ""
	}
	t := make([]byte, 0, 32)
	i := 0
	if s[0] == '_' {
		t = append(t, 'X')
		i++
	}
	lower := func(c byte) bool { return 'a' <= c && c <= 'z' }
	digit := func(c byte) bool { return '0' <= c && c <= '9' }
	for ; i < len(s); i++ {
		c := s[i]
		if c == '_' && i+1 < len(s) && lower(s[i+1]) {
			continue
		}
		if digit(c) {
			t = append(t, c)
			continue
		}
		if lower(c) {
			c ^= ' '
		}
		t = append(t, c)
		for i+1 < len(s) && lower(s[i+1]) {
			i++
			t = append(t, s[i])
		}
	}
	return string(t)
}

func unexport(s string) string { return strings.ToLower(s[:1]) + s[1:] }

var c19SvcNames = []string{"Svc", "my_service", "Data", "user_admin", "v2api", "Store"}
var c19MethodNames = []string{"Get", "get", "get_many", "GetMany2", "put_value", "bulk_load", "syncAll", "Watch", "watch_all", "List", "delete_v2", "Do", "x"}

const depFile = "dep/dep.proto"

func depDescriptor() *descriptorpb.FileDescriptorProto {
	return &descriptorpb.FileDescriptorProto{
		Name: proto.String(depFile), Package: proto.String("dep.pkg"), Syntax: proto.String("proto3"),
		Options:     &descriptorpb.FileOptions{GoPackage: proto.String(genModule + "/dep;dep")},
		MessageType: []*descriptorpb.DescriptorProto{{Name: proto.String("Shared")}, {Name: proto.String("other_msg")}},
	}
}

// c19NamesFrom, when set, lends its service names to the next generated file.
var c19NamesFrom *c19File

// a second dependency whose Go package is also called "dep" (two imports of one name: the generator has to
// give one of them another local name, everywhere it mentions it)
const dep2File = "dep2/dep.proto"

func dep2Descriptor() *descriptorpb.FileDescriptorProto {
	return &descriptorpb.FileDescriptorProto{
		Name: proto.String(dep2File), Package: proto.String("dep2.pkg"), Syntax: proto.String("proto3"),
		Options:     &descriptorpb.FileOptions{GoPackage: proto.String(genModule + "/dep2/dep;dep")},
		MessageType: []*descriptorpb.DescriptorProto{{Name: proto.String("Amount")}},
	}
}

// genProtoFile makes file number idx with 1..4 services.
func genProtoFile(r *rand.Rand, idx int, dir, pkgName string) *c19File {
	f := &c19File{Name: fmt.Sprintf("%s/f%d.proto", dir, idx), Dir: dir, PkgName: pkgName}
	f.Proto = pick(r, "pkg", "a.b.c", "x_y.z", "") + fmt.Sprint(idx)
	if strings.HasPrefix(f.Proto, fmt.Sprint(idx)) {
		f.Proto = "p" + f.Proto
	}
	if r.Intn(6) == 0 {
		f.Proto = "" // a file without a package statement: full names have no qualifier
	}
	if c19NamesFrom != nil && f.Proto == c19NamesFrom.Proto {
		f.Proto = fmt.Sprintf("ns%d", idx) // namesakes live in different proto packages (else the input is invalid)
	}
	qual := func(name string) string {
		if f.Proto == "" {
			return name
		}
		return f.Proto + "." + name
	}
	fd := &descriptorpb.FileDescriptorProto{
		Name: proto.String(f.Name), Package: proto.String(f.Proto), Syntax: proto.String("proto3"),
		Options: &descriptorpb.FileOptions{GoPackage: proto.String(fmt.Sprintf("%s/%s;%s", genModule, dir, pkgName))},
	}
	if f.Proto == "" {
		fd.Package = nil
	}
	nmsg := 1 + r.Intn(3)
	for k := 0; k < nmsg; k++ {
		name := fmt.Sprintf("%s%d_%d", pick(r, "Req", "resp", "item_msg", "M"), idx, k)
		f.Messages = append(f.Messages, name)
		fd.MessageType = append(fd.MessageType, &descriptorpb.DescriptorProto{Name: proto.String(name)})
	}
	f.UsesDep = r.Intn(2) == 0
	if f.UsesDep {
		fd.Dependency = append(fd.Dependency, depFile)
	}
	f.UsesDep2 = f.UsesDep && r.Intn(3) == 0
	if f.UsesDep2 {
		fd.Dependency = append(fd.Dependency, dep2File)
	}
	typeFor := func() (protoType, goType string) {
		if f.UsesDep2 && r.Intn(3) == 0 {
			return ".dep2.pkg.Amount", "dep2.Amount"
		}
		if f.UsesDep && r.Intn(3) == 0 {
			m := pick(r, "Shared", "other_msg")
			return ".dep.pkg." + m, "dep." + camelCase(m)
		}
		m := f.Messages[r.Intn(len(f.Messages))]
		return "." + qual(m), camelCase(m)
	}
	nsvc := 1 + r.Intn(4)
	// a sixth of the files are small on purpose: one service with one method whose request or response type
	// is the only thing in the file that refers to the other package
	focus := r.Intn(6) == 0
	if focus {
		nsvc, f.UsesDep = 1, true
		if len(fd.Dependency) == 0 {
			fd.Dependency = append(fd.Dependency, depFile)
		}
	}
	names := append([]string{}, c19SvcNames...)
	r.Shuffle(len(names), func(a, b int) { names[a], names[b] = names[b], names[a] })
	for s := 0; s < nsvc; s++ {
		sname := fmt.Sprintf("%s%d", names[s], idx)
		if c19NamesFrom != nil && s < len(c19NamesFrom.Services) {
			// the same simple service names as another file of the same run, in another proto and Go package
			// (v1/v2 style): each file's stubs use its own full names
			sname = c19NamesFrom.Services[s].Name
		}
		svc := c19Service{Name: sname, GoName: camelCase(sname), FullName: qual(sname)}
		sd := &descriptorpb.ServiceDescriptorProto{Name: proto.String(sname)}
		nm := r.Intn(13)
		if focus {
			nm = 1
		}
		mnames := append([]string{}, c19MethodNames...)
		r.Shuffle(len(mnames), func(a, b int) { mnames[a], mnames[b] = mnames[b], mnames[a] })
		streamIdx := 0
		usedGo := map[string]bool{}
		for m := 0; m < nm; m++ {
			mn := mnames[m]
			if usedGo[camelCase(mn)] {
				continue // "Get" and "get" map to the same Go name: protoc-gen-go-grpc would not compile either
			}
			usedGo[camelCase(mn)] = true
			cs, ss := r.Intn(3) == 0, r.Intn(3) == 0
			inP, inG := typeFor()
			outP, outG := typeFor()
			if focus {
				local := f.Messages[0]
				depMsg := pick(r, "Shared", "other_msg")
				inP, inG, outP, outG = "."+qual(local), camelCase(local), ".dep.pkg."+depMsg, "dep."+camelCase(depMsg)
				if r.Intn(2) == 0 {
					inP, inG, outP, outG = outP, outG, inP, inG
				}
			}
			md := &descriptorpb.MethodDescriptorProto{Name: proto.String(mn), InputType: proto.String(inP), OutputType: proto.String(outP)}
			if cs {
				md.ClientStreaming = proto.Bool(true)
			}
			if ss {
				md.ServerStreaming = proto.Bool(true)
			}
			sd.Method = append(sd.Method, md)
			cm := c19Method{Name: mn, GoName: camelCase(mn), CS: cs, SS: ss, In: inG, Out: outG, StreamIndex: -1}
			if cs || ss {
				cm.StreamIndex = streamIdx
				streamIdx++
			}
			svc.Methods = append(svc.Methods, cm)
		}
		fd.Service = append(fd.Service, sd)
		f.Services = append(f.Services, svc)
	}
	f.FD = fd
	return f
}

func runPlugin(bin string, req *pluginpb.CodeGeneratorRequest) (*pluginpb.CodeGeneratorResponse, string, error) {
	in, err := proto.Marshal(req)
	if err != nil {
		return nil, "", err
	}
	cmd := exec.Command(bin)
	cmd.Stdin = bytes.NewReader(in)
	var out, stderr bytes.Buffer
	cmd.Stdout, cmd.Stderr = &out, &stderr
	done := make(chan error, 1)
	if err := cmd.Start(); err != nil {
		return nil, "", err
	}
	go func() { done <- cmd.Wait() }()
	select {
	case err = <-done:
	case <-time.After(60 * time.Second):
		cmd.Process.Kill()
		return nil, stderr.String(), fmt.Errorf("plugin timed out")
	}
	if err != nil {
		return nil, stderr.String(), fmt.Errorf("plugin exited: %v", err)
	}
	resp := new(pluginpb.CodeGeneratorResponse)
	if err := proto.Unmarshal(out.Bytes(), resp); err != nil {
		return nil, stderr.String(), fmt.Errorf("plugin output is not a CodeGeneratorResponse: %v", err)
	}
	return resp, stderr.String(), nil
}

func goEnv() []string {
	return append(os.Environ(), "GOFLAGS=-mod=mod", "GOPROXY=off", "GOSUMDB=off", "GOTOOLCHAIN=local")
}

// companion emits what protoc-gen-go / protoc-gen-go-grpc would declare for f,
// reduced to what the grpchan stubs reference.
func companion(f *c19File, legacyDescNames bool) string {
	var b strings.Builder
	fmt.Fprintf(&b, "package %s\n\nimport (\n\t\"context\"\n\t\"google.golang.org/grpc\"\n", f.PkgName)
	if f.UsesDep {
		fmt.Fprintf(&b, "\tdep \"%s/dep\"\n", genModule)
	}
	if f.UsesDep2 {
		fmt.Fprintf(&b, "\tdep2 \"%s/dep2/dep\"\n", genModule)
	}
	b.WriteString(")\n\nvar _ context.Context\nvar _ grpc.CallOption\n")
	if f.UsesDep {
		b.WriteString("var _ dep.Shared\n")
	}
	if f.UsesDep2 {
		b.WriteString("var _ dep2.Amount\n")
	}
	for _, m := range f.Messages {
		fmt.Fprintf(&b, "type %s struct{ X int }\n", camelCase(m))
	}
	for _, s := range f.Services {
		g := s.GoName
		fmt.Fprintf(&b, "\ntype %sClient interface {\n", g)
		for _, m := range s.Methods {
			switch {
			case m.CS:
				fmt.Fprintf(&b, "\t%s(ctx context.Context, opts ...grpc.CallOption) (%s_%sClient, error)\n", m.GoName, g, m.GoName)
			case m.SS:
				fmt.Fprintf(&b, "\t%s(ctx context.Context, in *%s, opts ...grpc.CallOption) (%s_%sClient, error)\n", m.GoName, m.In, g, m.GoName)
			default:
				fmt.Fprintf(&b, "\t%s(ctx context.Context, in *%s, opts ...grpc.CallOption) (*%s, error)\n", m.GoName, m.In, m.Out)
			}
		}
		b.WriteString("}\n")
		fmt.Fprintf(&b, "type %sServer interface{ Is%sServer() }\n", g, g)
		for _, m := range s.Methods {
			if !m.CS && !m.SS {
				continue
			}
			fmt.Fprintf(&b, "type %s_%sClient interface{ grpc.ClientStream }\n", g, m.GoName)
			fmt.Fprintf(&b, "type %s%sClient struct{ grpc.ClientStream }\n", unexport(g), m.GoName)
		}
		descVar := g + "_ServiceDesc"
		if legacyDescNames {
			descVar = "_" + g + "_serviceDesc"
		}
		fmt.Fprintf(&b, "var %s = grpc.ServiceDesc{\n\tServiceName: %q,\n\tHandlerType: (*%sServer)(nil),\n\tMethods: []grpc.MethodDesc{\n", descVar, s.FullName, g)
		for _, m := range s.Methods {
			if !m.CS && !m.SS {
				fmt.Fprintf(&b, "\t\t{MethodName: %q},\n", m.Name)
			}
		}
		b.WriteString("\t},\n\tStreams: []grpc.StreamDesc{\n")
		for _, m := range s.Methods {
			if m.CS || m.SS {
				fmt.Fprintf(&b, "\t\t{StreamName: %q, ClientStreams: %v, ServerStreams: %v},\n", m.Name, m.CS, m.SS)
			}
		}
		b.WriteString("\t},\n}\n")
		// exported accessors for the runner (the legacy desc var is unexported)
		fmt.Fprintf(&b, "func VerifDesc_%s() *grpc.ServiceDesc { return &%s }\n", g, descVar)
	}
	return b.String()
}

type c19Call struct {
	File, Service, Method string
	Shape                 string // invoke | newstream
	Path                  string
	StreamIndex           int
	StreamName            string
	DescOfService         bool
	Sent, Closed          int
	Err                   string
	Panic                 string
	CtxOK, OptsOK, ReqOK  bool // the stub handed the caller's context, options and request on to the channel
}

type c19Reg struct {
	Service    string
	SameDesc   bool
	Registered int
	Panic      string
}

// runnerSource builds the main program that executes every generated client method.
func runnerSource(files []*c19File) string {
	var b strings.Builder
	b.WriteString("package main\n\nimport (\n\t\"context\"\n\t\"encoding/json\"\n\t\"fmt\"\n\t\"os\"\n\t\"reflect\"\n\t\"google.golang.org/grpc\"\n\t\"google.golang.org/grpc/metadata\"\n")
	pkgs := map[string]string{}
	for _, f := range files {
		pkgs[f.Dir] = f.PkgName
	}
	var dirs []string
	for d := range pkgs {
		dirs = append(dirs, d)
	}
	sort.Strings(dirs)
	for i, d := range dirs {
		fmt.Fprintf(&b, "\tp%d \"%s/%s\"\n", i, genModule, d)
	}
	alias := map[string]string{}
	for i, d := range dirs {
		alias[d] = fmt.Sprintf("p%d", i)
	}
	b.WriteString(`)

type call struct {
	File, Service, Method, Shape, Path string
	StreamIndex                         int
	StreamName                          string
	DescOfService                       bool
	Sent, Closed                        int
	Err, Panic                          string
	CtxOK, OptsOK, ReqOK                bool
}
type ctxKey struct{}
type sentinelOpt struct{ grpc.EmptyCallOption }
var theOpt = &sentinelOpt{}
var theReq interface{}
func optsOK(opts []grpc.CallOption) bool { return len(opts) == 1 && opts[0] == grpc.CallOption(theOpt) }
type reg struct {
	Service    string
	SameDesc   bool
	Registered int
	Panic      string
}
type recCh struct {
	cur  *call
	desc *grpc.ServiceDesc
}
type fakeCS struct{ c *call }
func (f *fakeCS) Header() (metadata.MD, error) { return nil, nil }
func (f *fakeCS) Trailer() metadata.MD         { return nil }
func (f *fakeCS) CloseSend() error             { f.c.Closed++; return nil }
func (f *fakeCS) Context() context.Context     { return context.Background() }
func (f *fakeCS) SendMsg(m interface{}) error  { f.c.Sent++; f.c.ReqOK = theReq != nil && m == theReq; return nil }
func (f *fakeCS) RecvMsg(m interface{}) error  { return nil }
func (r *recCh) Invoke(ctx context.Context, method string, req, reply interface{}, opts ...grpc.CallOption) error {
	r.cur.Shape, r.cur.Path = "invoke", method
	r.cur.CtxOK, r.cur.OptsOK, r.cur.ReqOK = ctx.Value(ctxKey{}) == "v", optsOK(opts), theReq != nil && req == theReq
	return nil
}
func (r *recCh) NewStream(ctx context.Context, desc *grpc.StreamDesc, method string, opts ...grpc.CallOption) (grpc.ClientStream, error) {
	r.cur.Shape, r.cur.Path = "newstream", method
	r.cur.CtxOK, r.cur.OptsOK = ctx.Value(ctxKey{}) == "v", optsOK(opts)
	r.cur.StreamIndex = -1
	for i := range r.desc.Streams {
		if desc == &r.desc.Streams[i] {
			r.cur.StreamIndex, r.cur.StreamName, r.cur.DescOfService = i, r.desc.Streams[i].StreamName, true
		}
	}
	if desc != nil && r.cur.StreamName == "" {
		r.cur.StreamName = desc.StreamName
	}
	return &fakeCS{r.cur}, nil
}
type recReg struct {
	got []*grpc.ServiceDesc
}
func (r *recReg) RegisterService(d *grpc.ServiceDesc, impl interface{}) { r.got = append(r.got, d) }

func callMethod(client interface{}, file, svc, method, goName string, desc *grpc.ServiceDesc, rc *recCh) (c call) {
	c = call{File: file, Service: svc, Method: method, StreamIndex: -2}
	rc.cur, rc.desc = &c, desc
	defer func() {
		if p := recover(); p != nil {
			c.Panic = fmt.Sprint(p)
		}
	}()
	m := reflect.ValueOf(client).MethodByName(goName)
	if !m.IsValid() {
		c.Err = "no such method on generated client: " + goName
		return
	}
	t := m.Type()
	args := []reflect.Value{reflect.ValueOf(context.WithValue(context.Background(), ctxKey{}, "v"))}
	theReq = nil
	for i := 1; i < t.NumIn(); i++ {
		if t.IsVariadic() && i == t.NumIn()-1 {
			args = append(args, reflect.ValueOf(grpc.CallOption(theOpt)))
			break
		}
		in := reflect.New(t.In(i).Elem())
		theReq = in.Interface()
		args = append(args, in)
	}
	out := m.Call(args)
	if e := out[len(out)-1]; !e.IsNil() {
		c.Err = fmt.Sprint(e.Interface())
	}
	return
}

func main() {
	var calls []call
	var regs []reg
	rc := &recCh{}
`)
	for _, f := range files {
		a := alias[f.Dir]
		for _, s := range f.Services {
			fmt.Fprintf(&b, "\t{\n\t\tdesc := %s.VerifDesc_%s()\n\t\tclient := %s.New%sChannelClient(rc)\n\t\t_ = client\n", a, s.GoName, a, s.GoName)
			for _, m := range s.Methods {
				fmt.Fprintf(&b, "\t\tcalls = append(calls, callMethod(client, %q, %q, %q, %q, desc, rc))\n", f.Name, s.FullName, m.Name, m.GoName)
			}
			fmt.Fprintf(&b, "\t\trr := &recReg{}\n\t\tg := reg{Service: %q}\n\t\tfunc() {\n\t\t\tdefer func() {\n\t\t\t\tif p := recover(); p != nil {\n\t\t\t\t\tg.Panic = fmt.Sprint(p)\n\t\t\t\t}\n\t\t\t}()\n\t\t\t%s.RegisterHandler%s(rr, nil)\n\t\t}()\n", s.FullName, a, s.GoName)
			b.WriteString("\t\tg.Registered = len(rr.got)\n\t\tg.SameDesc = len(rr.got) == 1 && rr.got[0] == desc\n\t\tregs = append(regs, g)\n\t}\n")
		}
	}
	b.WriteString("\tjson.NewEncoder(os.Stdout).Encode(map[string]interface{}{\"calls\": calls, \"regs\": regs})\n}\n")
	return b.String()
}

func checkC19(e *core.Env) {
	curEnv = e
	e.SetRule("the plugin binary is built from /repo and fed synthetic CodeGeneratorRequests: files with 1..4 services, 0..12 methods in random interleavings of the four kinds, snake/camel/lower-camel names, nested packages, imported request/response types, multi-file requests, options {legacy_stubs, legacy_desc_names, paths=import|source_relative, module=, import_path=, M mappings, invalid options}. Output must parse as Go; for the executable option sets it is compiled together with companion declarations derived from the same descriptors and EXECUTED against a recording channel/registrar: every client method must call the channel with /<full service>/<method>, the right call shape and the stream descriptor of that very method (index in declaration order); each registration function must register its own description; regenerating test.proto with legacy_stubs must reproduce the checked-in file byte for byte; distinct = distinct (option set, service shape)")
	e.Assume("companion declarations follow protoc-gen-go-grpc naming for identifiers over [A-Za-z0-9_]; they are self-validated by compiling the stubs regenerated for the repository's own test.proto naming scheme")
	tmp, err := os.MkdirTemp("", "c19-")
	if err != nil {
		e.Internal("tempdir: %v", err)
		return
	}
	defer os.RemoveAll(tmp)
	bin := filepath.Join(tmp, "protoc-gen-grpchan")
	build := exec.Command("go", "build", "-o", bin, "./cmd/protoc-gen-grpchan")
	build.Dir, build.Env = repoDir(), goEnv()
	if out, err := build.CombinedOutput(); err != nil {
		e.Internal("cannot build the plugin from %s: %v\n%s", repoDir(), err, out)
		return
	}

	// (3) regenerate the repository's own stubs
	if e.Selected("regen", 0) {
		e.Begin("regen", 0, "test.proto")
		var files []*descriptorpb.FileDescriptorProto
		seen := map[string]bool{}
		var add func(fd protoreflect.FileDescriptor)
		add = func(fd protoreflect.FileDescriptor) {
			if seen[fd.Path()] {
				return
			}
			seen[fd.Path()] = true
			imps := fd.Imports()
			for i := 0; i < imps.Len(); i++ {
				add(imps.Get(i).FileDescriptor)
			}
			files = append(files, protodesc.ToFileDescriptorProto(fd))
		}
		fd, ferr := protoregistry.GlobalFiles.FindFileByPath("test.proto")
		if ferr != nil {
			e.Internal("test.proto not registered: %v", ferr)
		} else {
			add(fd)
			resp, stderr, rerr := runPlugin(bin, &pluginpb.CodeGeneratorRequest{FileToGenerate: []string{"test.proto"}, Parameter: proto.String("legacy_stubs"), ProtoFile: files})
			want, _ := os.ReadFile(filepath.Join(repoDir(), "grpchantesting", "test.pb.grpchan.go"))
			e.Eval("regen|test.proto", true)
			switch {
			case rerr != nil || resp.GetError() != "":
				e.Violate("regen/plugin-error", fmt.Sprintf("regenerating test.proto failed: %v %s %s", rerr, resp.GetError(), stderr), nil)
			case len(resp.File) != 1:
				e.Violate("regen/files", fmt.Sprintf("expected one output file, got %d", len(resp.File)), nil)
			case resp.File[0].GetContent() != string(want):
				e.Violate("regen/differs", "regenerated grpchantesting/test.pb.grpchan.go differs from the checked-in file", map[string]any{"generated": resp.File[0].GetContent()})
			}
		}
	}

	type optSet struct {
		param  string
		exec   bool
		legacy bool
		layout string // import | module | source_relative
		fail   bool
	}
	execOpts := []optSet{
		{"legacy_stubs", true, false, "import", false},
		{"legacy_stubs,legacy_desc_names", true, true, "import", false},
		{"legacy_stubs=true,module=" + genModule, true, false, "module", false},
		{"paths=source_relative,legacy_stubs=yes,legacy_desc_names=1", true, true, "source_relative", false},
	}
	otherOpts := []optSet{
		{"", false, false, "import", false},
		{"legacy_stubs=false", false, false, "import", false},
		{"debug,legacy_stubs", false, false, "import", false},
		{"import_path=foo/bar,legacy_stubs", false, false, "import", false},
		{"M" + depFile + "=" + genModule + "/otherdep;otherdep,legacy_stubs", false, false, "import", false},
		{"paths=import,legacy_stubs", false, false, "import", false},
		{"bogus", false, false, "", true},
		{"paths=weird", false, false, "", true},
		{"legacy_stubs=maybe", false, false, "", true},
		{"module=x,paths=source_relative", false, false, "", true},
		{"import_path", false, false, "", true},
		{"Mfoo.proto", false, false, "", true},
	}

	nBatches := e.N(3, 24)
	for batch := 0; batch < nBatches; batch++ {
		if !e.Selected("batch", batch) {
			continue
		}
		e.Begin("batch", batch, "")
		r := e.CaseRand("batch", batch)
		mod := filepath.Join(tmp, fmt.Sprintf("mod%d", batch))
		os.MkdirAll(mod, 0o755)
		gomod := fmt.Sprintf("module %s\n\ngo 1.18\n\nrequire github.com/fullstorydev/grpchan v0.0.0\n\n%s\nreplace github.com/fullstorydev/grpchan => %s\n", genModule, repoRequires(), repoDir())
		os.WriteFile(filepath.Join(mod, "go.mod"), []byte(gomod), 0o644)
		if sum, err := os.ReadFile(filepath.Join(repoDir(), "go.sum")); err == nil {
			os.WriteFile(filepath.Join(mod, "go.sum"), sum, 0o644)
		}
		os.MkdirAll(filepath.Join(mod, "dep"), 0o755)
		os.WriteFile(filepath.Join(mod, "dep", "dep.go"), []byte("package dep\n\ntype Shared struct{ X int }\ntype OtherMsg struct{ X int }\n"), 0o644)
		os.MkdirAll(filepath.Join(mod, "dep2", "dep"), 0o755)
		os.WriteFile(filepath.Join(mod, "dep2", "dep", "dep.go"), []byte("package dep\n\ntype Amount struct{ X int }\n"), 0o644)
		var all []*c19File
		nreq := e.N(10, 14)
		idx := 0
		for q := 0; q < nreq; q++ {
			opt := execOpts[q%len(execOpts)]
			// one request: 1..3 files in one or two packages
			nf := 1 + r.Intn(3)
			var files []*c19File
			dirA := fmt.Sprintf("pk%d_%d", batch, q)
			for k := 0; k < nf; k++ {
				idx++
				dir, pkg := dirA, "pk"+fmt.Sprint(q)
				if k == 2 {
					dir, pkg = dirA+"/sub", "subpkg"
					c19NamesFrom = files[0]
				}
				files = append(files, genProtoFile(r, idx, dir, pkg))
				c19NamesFrom = nil
			}
			req := &pluginpb.CodeGeneratorRequest{Parameter: proto.String(opt.param), ProtoFile: []*descriptorpb.FileDescriptorProto{depDescriptor(), dep2Descriptor()}}
			for _, f := range files {
				req.FileToGenerate = append(req.FileToGenerate, f.Name)
				req.ProtoFile = append(req.ProtoFile, f.FD)
			}
			shape := ""
			for _, f := range files {
				for _, s := range f.Services {
					shape += fmt.Sprintf("[%d:", len(s.Methods))
					for _, m := range s.Methods {
						shape += fmt.Sprintf("%v%v", m.CS, m.SS)[0:2]
					}
					shape += "]"
				}
			}
			e.Note("request %d opts=%q files=%d %s", q, opt.param, nf, shape)
			resp, stderr, rerr := runPlugin(bin, req)
			e.Eval(fmt.Sprintf("exec|%s|%s", opt.param, shape), true)
			w := map[string]any{"options": opt.param, "files": req.FileToGenerate, "stderr": trunc(stderr, 500)}
			if rerr != nil || resp.GetError() != "" {
				e.Violate("generate/plugin-error", fmt.Sprintf("plugin failed for a valid request (%s): %v %s", opt.param, rerr, resp.GetError()), w)
				continue
			}
			if len(resp.File) != len(files) {
				e.Violate("generate/file-count", fmt.Sprintf("%d files with services requested, %d generated", len(files), len(resp.File)), w)
				continue
			}
			okAll := true
			byOut := map[string]*c19File{}
			for _, f := range files {
				base := strings.TrimSuffix(filepath.Base(f.Name), ".proto") + ".pb.grpchan.go"
				if opt.layout == "import" {
					byOut[genModule+"/"+f.Dir+"/"+base] = f
				} else {
					byOut[f.Dir+"/"+base] = f
				}
			}
			for _, of := range resp.File {
				if _, perr := parser.ParseFile(token.NewFileSet(), of.GetName(), of.GetContent(), parser.AllErrors); perr != nil {
					e.Violate("generate/invalid-go", fmt.Sprintf("generated file %s is not valid Go: %v", of.GetName(), perr), map[string]any{"options": opt.param, "content": of.GetContent()})
					okAll = false
					continue
				}
				f := byOut[of.GetName()]
				if f == nil {
					var want []string
					for k := range byOut {
						want = append(want, k)
					}
					sort.Strings(want)
					e.Violate("generate/file-name/"+opt.layout, fmt.Sprintf("output file named %q, expected one of %q for options %q", of.GetName(), want, opt.param), w)
					okAll = false
					continue
				}
				delete(byOut, of.GetName())
				base := strings.TrimSuffix(filepath.Base(f.Name), ".proto") + ".pb.grpchan.go"
				dst := filepath.Join(mod, f.Dir, base)
				os.MkdirAll(filepath.Dir(dst), 0o755)
				os.WriteFile(dst, []byte(of.GetContent()), 0o644)
				os.WriteFile(filepath.Join(mod, f.Dir, strings.TrimSuffix(filepath.Base(f.Name), ".proto")+"_companion.go"), []byte(companion(f, opt.legacy)), 0o644)
			}
			if okAll {
				all = append(all, files...)
			}
		}
		// compile and run everything generated in this batch
		os.MkdirAll(filepath.Join(mod, "cmd", "run"), 0o755)
		os.WriteFile(filepath.Join(mod, "cmd", "run", "main.go"), []byte(runnerSource(all)), 0o644)
		runBin := filepath.Join(tmp, fmt.Sprintf("run%d", batch))
		cb := exec.Command("go", "build", "-o", runBin, "./cmd/run")
		cb.Dir, cb.Env = mod, goEnv()
		if out, err := cb.CombinedOutput(); err != nil {
			e.Violate("execute/does-not-compile", "generated stubs do not compile against the declarations derived from the same descriptors: "+trunc(string(out), 3000), map[string]any{"build_output": string(out)})
			continue
		}
		out, err := exec.Command(runBin).Output()
		if err != nil {
			e.Violate("execute/run-failed", fmt.Sprintf("running the generated stubs failed: %v", err), nil)
			continue
		}
		var res struct {
			Calls []c19Call `json:"calls"`
			Regs  []c19Reg  `json:"regs"`
		}
		if err := json.Unmarshal(out, &res); err != nil {
			e.Internal("runner output: %v", err)
			continue
		}
		// expectations
		exp := map[string]c19Method{}
		for _, f := range all {
			for _, s := range f.Services {
				for _, m := range s.Methods {
					exp[s.FullName+"/"+m.Name] = m
				}
			}
		}
		for _, c := range res.Calls {
			m, ok := exp[c.Service+"/"+c.Method]
			if !ok {
				continue
			}
			e.Count("client_methods_executed", 1)
			e.Eval(fmt.Sprintf("method|%s|%s|idx=%d", methodShape(m), m.Name, m.StreamIndex), true)
			w := map[string]any{"call": c, "expected": m}
			sig := "execute/" + methodShape(m)
			wantPath := "/" + c.Service + "/" + c.Method
			switch {
			case c.Panic != "":
				e.Violate(sig+"/panic", fmt.Sprintf("%s: generated client method panicked: %s", wantPath, c.Panic), w)
			case c.Err != "":
				e.Violate(sig+"/error", fmt.Sprintf("%s: %s", wantPath, c.Err), w)
			case c.Path != wantPath:
				e.Violate(sig+"/path", fmt.Sprintf("method %s of %s calls the channel with path %q, want %q", c.Method, c.Service, c.Path, wantPath), w)
			case (m.CS || m.SS) && c.Shape != "newstream", !(m.CS || m.SS) && c.Shape != "invoke":
				e.Violate(sig+"/shape", fmt.Sprintf("%s: call shape %q does not match streaming flags client=%v server=%v", wantPath, c.Shape, m.CS, m.SS), w)
			case (m.CS || m.SS) && (!c.DescOfService || c.StreamIndex != m.StreamIndex || c.StreamName != c.Method):
				e.Violate(sig+"/stream-desc", fmt.Sprintf("%s: stream descriptor used is index %d (%q, of this service=%v); want index %d (%q)", wantPath, c.StreamIndex, c.StreamName, c.DescOfService, m.StreamIndex, c.Method), w)
			case !m.CS && m.SS && (c.Sent != 1 || c.Closed != 1):
				e.Violate(sig+"/server-stream-protocol", fmt.Sprintf("%s: server-streaming stub sent %d messages and closed %d times (want 1/1)", wantPath, c.Sent, c.Closed), w)
			case m.CS && (c.Sent != 0 || c.Closed != 0):
				e.Violate(sig+"/client-stream-protocol", fmt.Sprintf("%s: client-streaming stub sent/closed on its own (%d/%d)", wantPath, c.Sent, c.Closed), w)
			case !c.CtxOK || !c.OptsOK:
				e.Violate(sig+"/forwarding", fmt.Sprintf("%s: the stub did not hand the caller's context (ok=%v) / call options (ok=%v) on to the channel", wantPath, c.CtxOK, c.OptsOK), w)
			case !m.CS && !c.ReqOK:
				e.Violate(sig+"/forwarding", fmt.Sprintf("%s: the stub did not send the caller's request object", wantPath), w)
			}
		}
		if len(res.Calls) != len(exp) {
			e.Violate("execute/missing-methods", fmt.Sprintf("%d client methods expected, %d executed", len(exp), len(res.Calls)), nil)
		}
		for _, g := range res.Regs {
			e.Count("registration_functions_executed", 1)
			if g.Panic != "" || g.Registered != 1 || !g.SameDesc {
				e.Violate("execute/registration", fmt.Sprintf("RegisterHandler for %s: registered %d descriptions, own description=%v, panic=%q", g.Service, g.Registered, g.SameDesc, g.Panic), g)
			}
		}
		if batch == 0 && len(all) > 0 {
			e.Sample(map[string]any{"file": all[0].Name, "services": all[0].Services})
		}
		os.RemoveAll(mod)

		// import_path together with an M mapping for one of several generated files: the mapping wins for
		// that file, the override applies to the others
		{
			idx += 2
			// proto file names may start with the option's own prefix letter
			mdir := fmt.Sprintf("%s%d", []string{"Mp", "mp", "MM"}[batch%3], batch)
			f1 := genProtoFile(r, idx-1, mdir, "mappedsrc")
			f2 := genProtoFile(r, idx, mdir, "mappedsrc")
			param := fmt.Sprintf("import_path=%s/ovr,M%s=%s/mapped;mapped,legacy_stubs", genModule, f1.Name, genModule)
			req := &pluginpb.CodeGeneratorRequest{Parameter: proto.String(param), FileToGenerate: []string{f1.Name, f2.Name}, ProtoFile: []*descriptorpb.FileDescriptorProto{depDescriptor(), dep2Descriptor(), f1.FD, f2.FD}}
			resp, stderr, rerr := runPlugin(bin, req)
			e.Eval("option|import_path+M|multi-file", true)
			w := map[string]any{"options": param, "stderr": trunc(stderr, 400)}
			if rerr != nil || resp.GetError() != "" {
				e.Violate("options/refused", fmt.Sprintf("valid option set %q refused: %v %s", param, rerr, resp.GetError()), w)
			} else {
				want := map[string]string{
					genModule + "/mapped/" + strings.TrimSuffix(filepath.Base(f1.Name), ".proto") + ".pb.grpchan.go": "mapped",
					genModule + "/ovr/" + strings.TrimSuffix(filepath.Base(f2.Name), ".proto") + ".pb.grpchan.go":    "ovr",
				}
				for _, of := range resp.File {
					pkg, ok := want[of.GetName()]
					if !ok {
						e.Violate("options/import-path-vs-mapping", fmt.Sprintf("options %q: unexpected output file %q (the M mapping must win for %s, import_path applies to %s)", param, of.GetName(), f1.Name, f2.Name), w)
						continue
					}
					delete(want, of.GetName())
					if af, perr := parser.ParseFile(token.NewFileSet(), "x.go", of.GetContent(), parser.PackageClauseOnly); perr != nil || af.Name.Name != pkg {
						e.Violate("options/import-path-vs-mapping", fmt.Sprintf("options %q: file %q declares package %v, want %q", param, of.GetName(), af, pkg), w)
					}
				}
				for missing := range want {
					e.Violate("options/import-path-vs-mapping", fmt.Sprintf("options %q: expected output file %q was not generated", param, missing), w)
				}
			}
		}

		// import_path with a message-only sibling file (no go_package anywhere): both files end up in the
		// package named on the command line, so the stubs refer to the messages without any import
		{
			dir := fmt.Sprintf("acme/mo%d", batch)
			typesFD := &descriptorpb.FileDescriptorProto{Name: proto.String(dir + "/types.proto"), Package: proto.String("acme.store"), Syntax: proto.String("proto3"),
				MessageType: []*descriptorpb.DescriptorProto{{Name: proto.String("Item")}}}
			mtd := func(name string, cs, ss bool) *descriptorpb.MethodDescriptorProto {
				return &descriptorpb.MethodDescriptorProto{Name: proto.String(name), InputType: proto.String(".acme.store.Item"), OutputType: proto.String(".acme.store.Item"), ClientStreaming: proto.Bool(cs), ServerStreaming: proto.Bool(ss)}
			}
			svcFD := &descriptorpb.FileDescriptorProto{Name: proto.String(dir + "/service.proto"), Package: proto.String("acme.store"), Syntax: proto.String("proto3"), Dependency: []string{dir + "/types.proto"},
				Service: []*descriptorpb.ServiceDescriptorProto{{Name: proto.String("Store"), Method: []*descriptorpb.MethodDescriptorProto{mtd("Get", false, false), mtd("List", false, true), mtd("Put", true, false)}}}}
			goPkg := genModule + "/storepb"
			param := "legacy_stubs,import_path=" + goPkg
			req := &pluginpb.CodeGeneratorRequest{Parameter: proto.String(param), FileToGenerate: []string{typesFD.GetName(), svcFD.GetName()}, ProtoFile: []*descriptorpb.FileDescriptorProto{typesFD, svcFD}}
			if batch%2 == 1 {
				// files are generated in command-line order, which need not be dependency order
				req.FileToGenerate = []string{svcFD.GetName(), typesFD.GetName()}
			}
			resp, stderr, rerr := runPlugin(bin, req)
			e.Eval(fmt.Sprintf("option|import_path|message-only-sibling|service-first=%v", batch%2 == 1), true)
			w := map[string]any{"options": param, "files": req.FileToGenerate, "stderr": trunc(stderr, 400)}
			if rerr != nil || resp.GetError() != "" {
				e.Violate("options/refused", fmt.Sprintf("valid option set %q refused: %v %s", param, rerr, resp.GetError()), w)
			} else {
				found := false
				for _, of := range resp.File {
					if !strings.HasSuffix(of.GetName(), "service.pb.grpchan.go") {
						continue
					}
					found = true
					if of.GetName() != goPkg+"/service.pb.grpchan.go" {
						e.Violate("options/import-path-sibling", fmt.Sprintf("options %q: output file %q, want %q", param, of.GetName(), goPkg+"/service.pb.grpchan.go"), w)
					}
					af, perr := parser.ParseFile(token.NewFileSet(), "x.go", of.GetContent(), parser.ImportsOnly)
					if perr != nil {
						e.Violate("options/import-path-sibling", "output does not parse: "+perr.Error(), w)
						continue
					}
					for _, im := range af.Imports {
						ip, _ := strconv.Unquote(im.Path.Value)
						if strings.Contains(ip, "acme") || ip == goPkg || ip == "." || ip == "" {
							e.Violate("options/import-path-sibling", fmt.Sprintf("options %q: the stubs for %s import %q for messages of %s, which is generated into the same package", param, svcFD.GetName(), ip, typesFD.GetName()), w)
						}
					}
				}
				if !found {
					e.Violate("options/import-path-sibling", "no service.pb.grpchan.go in the output", w)
				}
			}
		}

		// options that are only parsed (not executed), and invalid options
		for oi, opt := range otherOpts {
			idx++
			f := genProtoFile(r, idx, fmt.Sprintf("op%d_%d", batch, oi), "oppkg")
			req := &pluginpb.CodeGeneratorRequest{Parameter: proto.String(opt.param), FileToGenerate: []string{f.Name}, ProtoFile: []*descriptorpb.FileDescriptorProto{depDescriptor(), dep2Descriptor(), f.FD}}
			if opt.param == "" {
				req.Parameter = nil // protoc omits the field when no options are given
			}
			resp, stderr, rerr := runPlugin(bin, req)
			e.Eval("option|"+opt.param, true)
			w := map[string]any{"options": opt.param, "stderr": trunc(stderr, 400)}
			if opt.fail {
				if rerr != nil {
					e.Violate("options/crash", fmt.Sprintf("invalid option %q: the plugin did not answer with an error response: %v", opt.param, rerr), w)
				} else if resp.GetError() == "" {
					e.Violate("options/accepted", fmt.Sprintf("invalid option %q was accepted", opt.param), w)
				}
				continue
			}
			if rerr != nil || resp.GetError() != "" {
				e.Violate("options/refused", fmt.Sprintf("valid option set %q refused: %v %s", opt.param, rerr, resp.GetError()), w)
				continue
			}
			if len(resp.File) != 1 {
				e.Violate("options/file-count", fmt.Sprintf("option set %q: %d output files", opt.param, len(resp.File)), w)
				continue
			}
			src := resp.File[0].GetContent()
			if _, perr := parser.ParseFile(token.NewFileSet(), "x.go", src, parser.AllErrors); perr != nil {
				e.Violate("options/invalid-go", fmt.Sprintf("option set %q: output is not valid Go: %v", opt.param, perr), map[string]any{"content": src})
				continue
			}
			for _, s := range f.Services {
				if !strings.Contains(src, "func RegisterHandler"+s.GoName+"(") {
					e.Violate("options/no-registration", fmt.Sprintf("option set %q: no registration function for service %s", opt.param, s.Name), w)
				}
				hasClient := strings.Contains(src, "func New"+s.GoName+"ChannelClient(")
				wantClient := strings.Contains(opt.param, "legacy_stubs") && !strings.Contains(opt.param, "legacy_stubs=false")
				if hasClient != wantClient {
					e.Violate("options/client-presence", fmt.Sprintf("option set %q: channel client present=%v, want %v", opt.param, hasClient, wantClient), w)
				}
			}
		}
	}
}

// repoRequires copies the require blocks of /repo/go.mod so that the scratch
// module resolves exactly the repository's dependency versions offline.
func repoRequires() string {
	b, err := os.ReadFile(filepath.Join(repoDir(), "go.mod"))
	if err != nil {
		return ""
	}
	var out strings.Builder
	in := false
	for _, l := range strings.Split(string(b), "\n") {
		t := strings.TrimSpace(l)
		switch {
		case strings.HasPrefix(t, "require ("):
			in = true
			out.WriteString("require (\n")
		case in && t == ")":
			in = false
			out.WriteString(")\n")
		case in:
			out.WriteString(l + "\n")
		case strings.HasPrefix(t, "require "):
			out.WriteString(l + "\n")
		}
	}
	return out.String()
}

func methodShape(m c19Method) string {
	switch {
	case m.CS && m.SS:
		return "bidi"
	case m.CS:
		return "client-stream"
	case m.SS:
		return "server-stream"
	}
	return "unary"
}
