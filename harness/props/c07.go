package props

import (
	"bytes"
	"context"
	"encoding/binary"
	"errors"
	"fmt"
	"google.golang.org/grpc"
	"io"
	"math"
	"math/rand"
	"net/http"
	"net/http/httptest"
	"os"
	"regexp"
	"runtime"
	"strconv"
	"strings"
	"sync"

	tpb "github.com/fullstorydev/grpchan/grpchantesting"
	"github.com/fullstorydev/grpchan/httpgrpc"
	"google.golang.org/grpc/codes"
	"google.golang.org/grpc/status"
	"google.golang.org/protobuf/proto"

	"verifharness/core"
)

func init() { core.Register("C07", checkC07) }

// cutBody yields data (in chunks of at most step bytes) and then endErr.
type cutBody struct {
	data   []byte
	step   int
	endErr error
}

func (b *cutBody) Read(p []byte) (int, error) {
	if len(b.data) == 0 {
		return 0, b.endErr
	}
	n := len(p)
	if b.step > 0 && n > b.step {
		n = b.step
	}
	if n > len(b.data) {
		n = len(b.data)
	}
	copy(p, b.data[:n])
	b.data = b.data[n:]
	return n, nil
}
func (b *cutBody) Close() error { return nil }

// yieldingBody hands out its data a piece at a time and yields the processor after every piece.
type yieldingBody struct {
	data []byte
	step int
}

func (b *yieldingBody) Read(p []byte) (int, error) {
	if len(b.data) == 0 {
		return 0, io.EOF
	}
	n := min(len(p), b.step, len(b.data))
	copy(p, b.data[:n])
	b.data = b.data[n:]
	runtime.Gosched()
	return n, nil
}
func (b *yieldingBody) Close() error { return nil }

type framedBody struct {
	bytes   []byte
	msgs    []*tpb.Message
	msgEnds []int // offset just after each complete message frame
	trailer *httpgrpc.HttpTrailer
	okEnd   int // offset just after the trailer frame
}

func frame32(b *bytes.Buffer, sz int32, payload []byte) {
	binary.Write(b, binary.BigEndian, sz)
	b.Write(payload)
}

// encodeStream builds a response body with my own encoder (independent of the library's writer).
func encodeStream(msgs []*tpb.Message, tr *httpgrpc.HttpTrailer) *framedBody {
	fb := &framedBody{msgs: msgs, trailer: tr}
	var b bytes.Buffer
	for _, m := range msgs {
		p, _ := proto.Marshal(m)
		frame32(&b, int32(len(p)), p)
		fb.msgEnds = append(fb.msgEnds, b.Len())
	}
	if tr != nil {
		p, _ := proto.Marshal(tr)
		frame32(&b, -int32(len(p)), p)
	}
	fb.okEnd = b.Len()
	fb.bytes = b.Bytes()
	return fb
}

type clientResult struct {
	msgs  []*tpb.Message
	err   error // final error (io.EOF = success)
	pan   string
	alloc uint64
	hung  bool
}

// feedClient lets httpgrpc.Channel decode body as the reply of a server-streaming call.
func feedClient(body io.ReadCloser, status int) clientResult {
	return feedClientKind(body, status, ServerStream)
}

// feedClientKind: the same for a chosen RPC kind (a single-response kind receives once).
func feedClientKind(body io.ReadCloser, status int, kind Kind) clientResult {
	var res clientResult
	ch := &httpgrpc.Channel{BaseURL: mustURL("http://c07.test/"), Transport: rtFunc(func(r *http.Request) (*http.Response, error) {
		go io.Copy(io.Discard, r.Body)
		h := http.Header{}
		h.Set("Content-Type", httpgrpc.StreamRpcContentType_V1)
		return &http.Response{StatusCode: status, Header: h, Body: body, Request: r, ProtoMajor: 1, ProtoMinor: 1}, nil
	})}
	ctx, cancel := context.WithCancel(context.Background())
	defer cancel()
	var ms0, ms1 runtime.MemStats
	runtime.ReadMemStats(&ms0)
	res.pan = guard(func() {
		st, err := ch.NewStream(ctx, kind.StreamDesc(), kind.Method(), c07CallOpts...)
		if err != nil {
			res.err = err
			return
		}
		st.SendMsg(&tpb.Message{})
		st.CloseSend()
		if !kind.ServerStreams() {
			m := new(tpb.Message)
			if err := st.RecvMsg(m); err != nil {
				res.err = err
				return
			}
			res.msgs = append(res.msgs, m)
			res.err = io.EOF // success of a single-response call
			return
		}
		for i := 0; i < 10000; i++ {
			m := new(tpb.Message)
			if err := st.RecvMsg(m); err != nil {
				res.err = err
				return
			}
			res.msgs = append(res.msgs, m)
		}
		res.hung = true
	})
	runtime.ReadMemStats(&ms1)
	res.alloc = ms1.TotalAlloc - ms0.TotalAlloc
	return res
}

const allocSlack = 8 << 20

// c07CallOpts: call options of the client under test (callers that lift gRPC's own size limits are common;
// the fixed limit of this wire protocol is not theirs to lift).
var c07CallOpts []grpc.CallOption

// perMessageLimit is the library's fixed per-message limit (maxMessageSize in
// httpgrpc/io.go), read from the source at start-up; 100 MiB if it cannot be read.
var perMessageLimit = int32(readMessageLimit())

func readMessageLimit() int {
	def := 100 << 20
	b, err := os.ReadFile(repoDir() + "/httpgrpc/io.go")
	if err != nil {
		return def
	}
	m := regexp.MustCompile(`(?m)^\s*maxMessageSize\s*=\s*([0-9][0-9 *]*)`).FindSubmatch(b)
	if m == nil {
		return def
	}
	v := 1
	for _, f := range strings.Split(string(m[1]), "*") {
		n, err := strconv.Atoi(strings.TrimSpace(f))
		if err != nil || n <= 0 {
			return def
		}
		v *= n
	}
	if v < 1<<10 || v > 1<<31-1 {
		return def
	}
	return v
}

func checkC07(e *core.Env) {
	curEnv = e
	e.SetLevel("fault_enumeration")
	e.SetRule("client side: bodies encoding random message sequences (0..12 messages incl. empty ones) + OK/error trailers are cut at EVERY byte offset with each ending kind (clean io.EOF, io.ErrUnexpectedEOF, arbitrary error) and several read chunkings, replayed through a scripted RoundTripper; hostile length prefixes {0,-1,-2^31,2^31-1,100MiB+-1,101MiB,200MiB,random} at every frame position; random byte flips; data after the trailer. Server side: the same request-body faults into ServeHTTP with a collecting handler. Oracle: delivered messages are an intact prefix of those encoded, success iff the cut is at/after the end of an OK trailer, no panic, TotalAlloc delta <= 100MiB + 32*len(body) + 8MiB; distinct = (side, fault kind, offset class, ending)")
	endings := []struct {
		name string
		err  error
	}{{"eof", io.EOF}, {"unexpected-eof", io.ErrUnexpectedEOF}, {"reset", errors.New("read tcp: connection reset by peer")}}

	svc := &Service{}
	srv := httpgrpc.NewServer()
	srv.RegisterService(&ScriptedDesc, svc)

	nBodies := e.N(20, 300)
	e.Cases("client-cut", nBodies, func(i int, r *rand.Rand) {
		nm := r.Intn(7)
		if i%5 == 0 {
			nm = 0
		}
		var msgs []*tpb.Message
		for k := 0; k < nm; k++ {
			m := genMsg(r, fmt.Sprintf("c07-%d-%d", i, k), false)
			if len(m.Payload) > 200 {
				m.Payload = m.Payload[:200]
			}
			msgs = append(msgs, m)
		}
		tr := &httpgrpc.HttpTrailer{Code: 0, Message: "OK"}
		if r.Intn(3) == 0 {
			tr = &httpgrpc.HttpTrailer{Code: int32(1 + r.Intn(16)), Message: "failed", Metadata: map[string]*httpgrpc.TrailerValues{"k": {Values: []string{"v"}}}}
		}
		if r.Intn(3) == 0 {
			tr.Metadata = map[string]*httpgrpc.TrailerValues{"t": {Values: []string{"1", "2"}}}
		}
		fb := encodeStream(msgs, tr)
		full := fb.bytes
		if r.Intn(4) == 0 {
			full = append(append([]byte{}, full...), randBytes(r, 1+r.Intn(9))...) // data after the trailer
		}
		for cut := 0; cut <= len(full); cut++ {
			for ei, end := range endings {
				step := []int{0, 1, 3}[(cut+ei)%3]
				res := feedClient(&cutBody{data: append([]byte{}, full[:cut]...), step: step, endErr: end.err}, 200)
				cls := "mid-frame"
				switch {
				case cut >= fb.okEnd:
					cls = "complete"
				case cut == 0:
					cls = "empty"
				default:
					for _, me := range fb.msgEnds {
						if cut == me {
							cls = "frame-boundary"
						}
						if cut == me+4 {
							cls = "after-prefix"
						}
					}
					if len(fb.msgEnds) == 0 && cut == 4 || len(fb.msgEnds) > 0 && cut == fb.msgEnds[len(fb.msgEnds)-1]+4 {
						cls = "after-trailer-prefix"
					}
				}
				e.Eval(fmt.Sprintf("client-cut|%s|%s|code=%v|step=%d", cls, end.name, tr.Code == 0, step), true)
				e.Count("cuts", 1)
				w := map[string]any{"body_len": len(full), "cut": cut, "class": cls, "ending": end.name, "messages": len(msgs), "trailer_code": tr.Code, "read_step": step, "got_messages": len(res.msgs), "got_err": fmt.Sprint(res.err)}
				judgeClientDecode(e, "client-cut/"+cls+"/"+end.name, res, fb, cut, w)
			}
		}
		if i < 2 {
			e.Sample(map[string]any{"phase": "client-cut", "body_bytes": len(full), "messages": len(msgs), "trailer_code": tr.Code, "cuts_tried": (len(full) + 1) * 3})
		}
	})

	// large messages (above any plausible "small message" fast path: 64 KiB..1 MiB) made of many fields, cut
	// after the size preface, on field boundaries (where the prefix that arrived is a valid encoding of a smaller
	// message) and inside fields, with each ending kind
	e.Cases("client-cut-large", e.N(4, 40), func(i int, r *rand.Rand) {
		var msgs []*tpb.Message
		var raw [][]byte   // encoding of each message as a concatenation of single-field encodings
		var bounds [][]int // field boundaries inside each encoding
		for k := 0; k < 3; k++ {
			target := 300
			if k >= 1 {
				// two large messages in a row, of different sizes and contents
				target = pick(r, 32<<10+1, 64<<10+1, 70000, 100000, 300000, 1<<20) >> uint(k-1)
				if k == 1 && i%2 == 1 {
					target = 5 << 19 // 2.5 MiB: cuts on field boundaries deep inside a frame of several MiB
				}
			}
			var enc []byte
			var bs []int
			for f := 0; len(enc) < target; f++ {
				part := &tpb.Message{Headers: map[string][]byte{fmt.Sprintf("k%d-%d", k, f): randBytes(r, 200+r.Intn(3000))}}
				if f == 0 {
					part = &tpb.Message{Payload: randBytes(r, 100), Count: int32(i*10 + k)}
				}
				b, _ := proto.Marshal(part)
				enc = append(enc, b...)
				bs = append(bs, len(enc))
			}
			m := new(tpb.Message)
			if err := proto.Unmarshal(enc, m); err != nil {
				e.Internal("client-cut-large: own encoding does not decode: %v", err)
				return
			}
			msgs, raw, bounds = append(msgs, m), append(raw, enc), append(bounds, bs)
		}
		tr := &httpgrpc.HttpTrailer{Message: "OK"}
		fb := &framedBody{msgs: msgs, trailer: tr}
		var b bytes.Buffer
		var cuts []int
		for k, enc := range raw {
			start := b.Len()
			frame32(&b, int32(len(enc)), enc)
			fb.msgEnds = append(fb.msgEnds, b.Len())
			cuts = append(cuts, start, start+2, start+4, start+5, b.Len()-1, b.Len())
			for n, fbnd := range bounds[k] {
				if n < 6 || n%7 == 0 || n >= len(bounds[k])-3 {
					cuts = append(cuts, start+4+fbnd, start+4+fbnd-1, start+4+fbnd+1)
				}
			}
			for n := 0; n < 6; n++ {
				cuts = append(cuts, start+4+r.Intn(len(enc)))
			}
		}
		tp, _ := proto.Marshal(tr)
		frame32(&b, -int32(len(tp)), tp)
		fb.okEnd = b.Len()
		fb.bytes = b.Bytes()
		cuts = append(cuts, fb.okEnd-1, fb.okEnd)
		for _, cut := range cuts {
			if cut < 0 || cut > len(fb.bytes) {
				continue
			}
			for ei, end := range endings {
				step := []int{0, 4096, 1000}[(cut+ei)%3]
				res := feedClient(&cutBody{data: append([]byte{}, fb.bytes[:cut]...), step: step, endErr: end.err}, 200)
				e.Eval(fmt.Sprintf("client-cut-large|%d|%s", cut*16/(len(fb.bytes)+1), end.name), true)
				e.Count("cuts", 1)
				w := map[string]any{"body_len": len(fb.bytes), "cut": cut, "ending": end.name, "message_sizes": []int{len(raw[0]), len(raw[1]), len(raw[2])}, "read_step": step, "got_messages": len(res.msgs), "got_err": fmt.Sprint(res.err)}
				judgeClientDecode(e, "client-cut-large/"+end.name, res, fb, cut, w)
			}
		}
	})

	// single-response (client-streaming) replies cut at every offset
	e.Cases("client-cut-single", e.N(10, 120), func(i int, r *rand.Rand) {
		m := genMsg(r, fmt.Sprintf("c07single-%d", i), false)
		if len(m.Payload) > 100 {
			m.Payload = m.Payload[:100]
		}
		tr := &httpgrpc.HttpTrailer{Message: "OK"}
		if i%3 == 0 {
			tr = &httpgrpc.HttpTrailer{Code: int32(1 + r.Intn(16)), Message: "failed"}
		}
		fb := encodeStream([]*tpb.Message{m}, tr)
		for cut := 0; cut <= len(fb.bytes); cut++ {
			for _, end := range endings {
				res := feedClientKind(&cutBody{data: append([]byte{}, fb.bytes[:cut]...), step: cut % 3, endErr: end.err}, 200, ClientStream)
				e.Eval(fmt.Sprintf("client-cut-single|%d|%s|%v", cut*6/(len(fb.bytes)+1), end.name, tr.Code == 0), true)
				e.Count("cuts", 1)
				w := map[string]any{"body_len": len(fb.bytes), "cut": cut, "ending": end.name, "trailer_code": tr.Code, "got_err": fmt.Sprint(res.err), "got_messages": len(res.msgs)}
				judgeClientDecode(e, "client-cut-single/"+end.name, res, fb, cut, w)
			}
		}
	})

	unaryCutPhase(e, "client", e.N(12, 150))

	{
		// a unary request whose first field ends exactly at the per-message limit: nothing after it may be lost
		e.Cases("big-unary-request", e.N(1, 2), func(i int, r *rand.Rand) {
			limit := int(perMessageLimit)
			m := &tpb.Message{Payload: make([]byte, limit-5), Count: 77, Headers: map[string][]byte{"after": []byte("the limit")}}
			body, _ := proto.MarshalOptions{Deterministic: true}.Marshal(m)
			sc := &Script{Kind: Unary, UnaryReq: m, Resp: &tpb.Message{Payload: []byte("ok")}}
			run := svc.NewRun(sc, "http-direct")
			defer svc.Forget(run)
			req := httptest.NewRequest("POST", Unary.Method(), bytes.NewReader(body))
			req.Header.Set("Content-Type", httpgrpc.UnaryRpcContentType_V1)
			req.Header.Set("X-Verif-Run", run.ID)
			rec := httptest.NewRecorder()
			pan := guard(func() { srv.ServeHTTP(rec, req) })
			e.Eval(fmt.Sprintf("big-unary-request|%d", i), true)
			w := map[string]any{"body_len": len(body), "http_status": rec.Code}
			if pan != "" {
				e.Violate("server/big-unary/panic", trunc(pan, 400), w)
				return
			}
			hr := run.Rets("h", "recv")
			if len(hr) > 0 && hr[0].Msg != nil && rec.Code == 200 {
				got := hr[0].Msg
				if got.Count != 77 || string(got.Headers["after"]) != "the limit" || len(got.Payload) != limit-5 {
					e.Violate("server/big-unary/fabricated", fmt.Sprintf("a %d-byte unary request was accepted but the handler got count=%d headers=%d payload=%d bytes", len(body), got.Count, len(got.Headers), len(got.Payload)), w)
				}
			}
		})
	}

	// hostile length prefixes at each frame position (client)
	hostile := []int32{0, -1, -2147483648, 2147483647, perMessageLimit - 1, perMessageLimit, perMessageLimit + 1, 101 << 20, 200 << 20, -(perMessageLimit + 1), -2147483647, 1 << 30}
	e.Cases("client-prefix", e.N(40, 300), func(i int, r *rand.Rand) {
		nm := r.Intn(4)
		var msgs []*tpb.Message
		for k := 0; k < nm; k++ {
			msgs = append(msgs, &tpb.Message{Payload: []byte(fmt.Sprintf("p%d-%d", i, k))})
		}
		fb := encodeStream(msgs, nil)
		pfx := hostile[i%len(hostile)]
		if i >= 2*len(hostile) {
			pfx = int32(r.Uint32())
		}
		var b bytes.Buffer
		b.Write(fb.bytes)
		binary.Write(&b, binary.BigEndian, pfx)
		tail := r.Intn(40)
		b.Write(randBytes(r, tail))
		e.Note("prefix=%d after %d messages, %d tail bytes", pfx, nm, tail)
		if i%2 == 1 {
			c07CallOpts = []grpc.CallOption{grpc.MaxCallRecvMsgSize(math.MaxInt32), grpc.MaxCallSendMsgSize(math.MaxInt32)}
		}
		res := feedClient(&cutBody{data: b.Bytes(), endErr: io.EOF}, 200)
		c07CallOpts = nil
		e.Eval(fmt.Sprintf("client-prefix|%d|%d", pfx, nm), true)
		w := map[string]any{"prefix": pfx, "messages_before": nm, "tail_bytes": tail, "alloc_bytes": res.alloc, "got_messages": len(res.msgs), "got_err": fmt.Sprint(res.err)}
		sig := "client-prefix/" + prefixClass(pfx)
		if res.pan != "" {
			e.Violate(sig+"/panic", fmt.Sprintf("length prefix %d made the client panic: %s", pfx, trunc(res.pan, 500)), w)
			return
		}
		limit := uint64(int(perMessageLimit) + 32*b.Len() + allocSlack)
		if pfx > 0 && pfx <= perMessageLimit {
			limit += uint64(pfx)
		}
		if res.alloc > limit {
			e.Violate(sig+"/allocation", fmt.Sprintf("length prefix %d alone (body has %d bytes) made the client allocate %d MiB", pfx, b.Len(), res.alloc>>20), w)
		}
		// messages before the hostile prefix are an intact prefix; the call must fail unless a valid frame happened to follow
		for k, m := range res.msgs {
			if k < len(msgs) && !sameMsg(m, msgs[k]) {
				e.Violate(sig+"/fabricated", fmt.Sprintf("message #%d delivered differs from the encoded one", k), w)
				return
			}
		}
		if pfx > int32(tail) || pfx < -int32(tail) {
			if len(res.msgs) > len(msgs) {
				e.Violate(sig+"/fabricated", fmt.Sprintf("%d messages delivered, only %d were encoded (prefix %d promises more bytes than the body has)", len(res.msgs), len(msgs), pfx), w)
			}
			if res.err == io.EOF || res.err == nil {
				e.Violate(sig+"/success", fmt.Sprintf("body ends inside a frame announced by prefix %d but the call reported success", pfx), w)
			}
		}
	})

	// random corruption (client): never panic, never over-allocate, delivered prefix intact up to the flip
	e.Cases("client-flip", e.N(150, 1500), func(i int, r *rand.Rand) {
		nm := 1 + r.Intn(4)
		var msgs []*tpb.Message
		for k := 0; k < nm; k++ {
			msgs = append(msgs, &tpb.Message{Payload: randBytes(r, r.Intn(30)), Count: int32(k)})
		}
		fb := encodeStream(msgs, &httpgrpc.HttpTrailer{Message: "OK"})
		data := append([]byte{}, fb.bytes...)
		pos := r.Intn(len(data))
		data[pos] ^= byte(1 << uint(r.Intn(8)))
		res := feedClient(&cutBody{data: data, step: r.Intn(3), endErr: io.EOF}, 200)
		e.Eval(fmt.Sprintf("client-flip|%d", pos*8/len(data)), true)
		w := map[string]any{"flip_at": pos, "body_len": len(data), "alloc": res.alloc, "err": fmt.Sprint(res.err)}
		if res.pan != "" {
			e.Violate("client-flip/panic", trunc(res.pan, 500), w)
		}
		if res.alloc > uint64(int(perMessageLimit)+32*len(data)+allocSlack) {
			e.Violate("client-flip/allocation", fmt.Sprintf("a single flipped bit made the client allocate %d MiB", res.alloc>>20), w)
		}
		intact := 0
		for _, me := range fb.msgEnds {
			if me <= pos {
				intact++
			}
		}
		for k := 0; k < intact && k < len(res.msgs); k++ {
			if !sameMsg(res.msgs[k], msgs[k]) {
				e.Violate("client-flip/fabricated", fmt.Sprintf("message #%d, encoded before the corrupted byte, was delivered altered", k), w)
				break
			}
		}
	})

	// ---- server side ----
	serve := func(body []byte, end error) (hr []Event, herr error, returned bool, code int, trailers int, pan string, alloc uint64) {
		// (the handler receives every message into one and the same message value)
		sc := &Script{Kind: ClientStream, ReuseDest: true, Handler: []Op{{Op: "recvall"}, {Op: "send", Msg: &tpb.Message{Payload: []byte("resp")}}}}
		run := svc.NewRun(sc, "http-direct")
		defer svc.Forget(run)
		req := httptest.NewRequest("POST", ClientStream.Method(), &cutBody{data: body, endErr: end})
		req.ContentLength = -1
		req.Header.Set("Content-Type", httpgrpc.StreamRpcContentType_V1)
		req.Header.Set("X-Verif-Run", run.ID)
		rec := httptest.NewRecorder()
		var ms0, ms1 runtime.MemStats
		runtime.ReadMemStats(&ms0)
		pan = guard(func() { srv.ServeHTTP(rec, req) })
		runtime.ReadMemStats(&ms1)
		herr, returned = run.HandlerReturn()
		for _, ev := range run.Events() {
			if ev.Pan != "" && pan == "" {
				pan = ev.Who + "." + ev.Op + ": " + ev.Pan // recovered by the actor, still a library panic
			}
		}
		_, ntr := parseReplyFrames(rec.Body.Bytes())
		return run.Rets("h", "recv"), herr, returned, rec.Code, ntr, pan, ms1.TotalAlloc - ms0.TotalAlloc
	}
	// after requests that broke off inside a frame: several request streams decoded at the same time, their bodies
	// arriving in pieces with the goroutines taking turns inside every frame (one processor, a yield after each
	// piece). Every handler receives exactly the messages of its own stream - whatever the decoder re-uses between
	// calls, no stream sees another's bytes
	e.Cases("server-concurrent-after-truncation", e.N(6, 60), func(i int, r *rand.Rand) {
		prev := runtime.GOMAXPROCS(1)
		defer runtime.GOMAXPROCS(prev)
		size := pick(r, 64, 300, 1500, 5000)
		one := encodeStream([]*tpb.Message{{Payload: bytes.Repeat([]byte{0xEE}, size)}}, nil)
		for k := 0; k < 1+r.Intn(3); k++ {
			serve(append([]byte{}, one.bytes[:4+r.Intn(size)]...), pick(r, io.EOF, io.ErrUnexpectedEOF))
		}
		const streams = 6
		type result struct {
			sent []*tpb.Message
			got  []Event
			pan  string
		}
		res := make([]result, streams)
		var wg sync.WaitGroup
		for sidx := 0; sidx < streams; sidx++ {
			var msgs []*tpb.Message
			for k := 0; k < 4; k++ {
				msgs = append(msgs, &tpb.Message{Payload: bytes.Repeat([]byte{byte(0x10*(sidx+1) + k)}, size), Count: int32(100*sidx + k)})
			}
			res[sidx].sent = msgs
			body := encodeStream(msgs, nil).bytes
			wg.Add(1)
			go func(sidx int) {
				defer wg.Done()
				sc := &Script{Kind: ClientStream, Handler: []Op{{Op: "recvall"}, {Op: "send", Msg: &tpb.Message{Payload: []byte("resp")}}}}
				run := svc.NewRun(sc, "http-direct")
				defer svc.Forget(run)
				req := httptest.NewRequest("POST", ClientStream.Method(), &yieldingBody{data: body, step: size/3 + 1})
				req.ContentLength = -1
				req.Header.Set("Content-Type", httpgrpc.StreamRpcContentType_V1)
				req.Header.Set("X-Verif-Run", run.ID)
				res[sidx].pan = guard(func() { srv.ServeHTTP(httptest.NewRecorder(), req) })
				res[sidx].got = run.Rets("h", "recv")
			}(sidx)
		}
		wg.Wait()
		e.Eval(fmt.Sprintf("server-concurrent|size=%d", size), true)
		e.Count("concurrent_request_streams", streams)
		for sidx, rs := range res {
			w := map[string]any{"stream": sidx, "frame_payload_bytes": size}
			if rs.pan != "" {
				e.Violate("server-concurrent/panic", trunc(rs.pan, 400), w)
				break
			}
			n := 0
			for _, ev := range rs.got {
				if ev.Err != nil {
					continue
				}
				if n >= len(rs.sent) || !sameMsg(ev.Msg, rs.sent[n]) {
					e.Violate("server-concurrent/fabricated", fmt.Sprintf("request stream %d: the handler's receive #%d is {%s}; that stream carried {%s} there", sidx, n, msgDesc(ev.Msg), msgDesc(rs.sent[min(n, len(rs.sent)-1)])), w)
					return
				}
				n++
			}
			if n != len(rs.sent) {
				e.Violate("server-concurrent/lost", fmt.Sprintf("request stream %d: %d of %d messages reached the handler", sidx, n, len(rs.sent)), w)
				return
			}
		}
	})

	e.Cases("server-cut", e.N(8, 60), func(i int, r *rand.Rand) {
		nm := 1 + r.Intn(5)
		var msgs []*tpb.Message
		for k := 0; k < nm; k++ {
			m := genMsg(r, fmt.Sprintf("c07s-%d-%d", i, k), false)
			if len(m.Payload) > 100 {
				m.Payload = m.Payload[:100]
			}
			if k > 0 && r.Intn(3) == 0 {
				m = &tpb.Message{} // a frame of length zero between others
			}
			msgs = append(msgs, m)
		}
		fb := encodeStream(msgs, nil)
		for cut := 0; cut <= len(fb.bytes); cut++ {
			for _, end := range endings {
				hr, _, returned, _, ntr, pan, _ := serve(append([]byte{}, fb.bytes[:cut]...), end.err)
				boundary := cut == 0
				complete := 0
				for _, me := range fb.msgEnds {
					if me <= cut {
						complete++
					}
					if me == cut {
						boundary = true
					}
				}
				cls := "mid-frame"
				if boundary {
					cls = "frame-boundary"
				}
				e.Eval(fmt.Sprintf("server-cut|%s|%s", cls, end.name), true)
				e.Count("cuts", 1)
				w := map[string]any{"body_len": len(fb.bytes), "cut": cut, "ending": end.name, "class": cls, "handler_receives": len(hr)}
				sig := "server-cut/" + cls + "/" + end.name
				if pan != "" {
					e.Violate(sig+"/panic", trunc(pan, 500), w)
					continue
				}
				if !returned {
					e.Violate(sig+"/handler-not-run", "handler did not run for a streaming request", w)
					continue
				}
				got := 0
				var last error
				for _, ev := range hr {
					if ev.Err == nil {
						if got >= len(msgs) || !sameMsg(ev.Msg, msgs[got]) {
							e.Violate(sig+"/fabricated", fmt.Sprintf("handler received message #%d that differs from the encoded one", got), w)
							break
						}
						got++
					} else {
						last = ev.Err
					}
				}
				if got > complete {
					e.Violate(sig+"/fabricated", fmt.Sprintf("handler received %d messages, only %d complete frames were in the body", got, complete), w)
				}
				cleanEnd := boundary && end.err == io.EOF
				if !cleanEnd && last == io.EOF {
					e.Violate(sig+"/truncation-as-eof", fmt.Sprintf("request body cut at offset %d (%s, ending %s): handler's RecvMsg reported a clean end of stream", cut, cls, end.name), w)
				}
				if cleanEnd && last != io.EOF {
					e.Violate(sig+"/clean-end-as-error", fmt.Sprintf("request body ends cleanly at a frame boundary but RecvMsg returned %v", last), w)
				}
				if ntr != 1 {
					e.Violate(sig+"/reply-trailers", fmt.Sprintf("reply has %d trailer frames", ntr), w)
				}
			}
		}
	})
	// the same for methods that take a single request (another branch of the server's receive path) and for
	// unary requests whose body breaks off with a read error
	serveKind := func(kind Kind, body []byte, end error) (hr []Event, returned bool, code int, pan string) {
		sc := &Script{Kind: kind, Handler: []Op{{Op: "recv"}, {Op: "recv"}, {Op: "send", Msg: &tpb.Message{Payload: []byte("resp")}}}}
		ct := httpgrpc.StreamRpcContentType_V1
		if kind == Unary {
			sc = &Script{Kind: Unary, Resp: &tpb.Message{Payload: []byte("resp")}}
			ct = httpgrpc.UnaryRpcContentType_V1
		}
		run := svc.NewRun(sc, "http-direct")
		defer svc.Forget(run)
		req := httptest.NewRequest("POST", kind.Method(), &cutBody{data: body, endErr: end})
		req.ContentLength = -1
		req.Header.Set("Content-Type", ct)
		req.Header.Set("X-Verif-Run", run.ID)
		rec := httptest.NewRecorder()
		pan = guard(func() { srv.ServeHTTP(rec, req) })
		_, returned = run.HandlerReturn()
		for _, ev := range run.Events() {
			if ev.Pan != "" && pan == "" {
				pan = ev.Who + "." + ev.Op + ": " + ev.Pan
			}
		}
		return run.Rets("h", "recv"), returned, rec.Code, pan
	}
	e.Cases("server-cut-single", e.N(10, 80), func(i int, r *rand.Rand) {
		m := genMsg(r, fmt.Sprintf("c07ss-%d", i), false)
		if len(m.Payload) > 100 {
			m.Payload = m.Payload[:100]
		}
		msgs := []*tpb.Message{m}
		if r.Intn(3) == 0 {
			msgs = append(msgs, &tpb.Message{Payload: []byte("second")})
		}
		fb := encodeStream(msgs, nil)
		for cut := 0; cut <= len(fb.bytes); cut++ {
			for _, end := range endings {
				hr, returned, _, pan := serveKind(ServerStream, append([]byte{}, fb.bytes[:cut]...), end.err)
				e.Eval(fmt.Sprintf("server-cut-single|%v|%s", cut >= fb.msgEnds[0], end.name), true)
				e.Count("cuts", 1)
				w := map[string]any{"body_len": len(fb.bytes), "first_frame_ends_at": fb.msgEnds[0], "cut": cut, "ending": end.name}
				sig := "server-cut-single/" + end.name
				if pan != "" {
					e.Violate(sig+"/panic", trunc(pan, 500), w)
					continue
				}
				if !returned || len(hr) == 0 {
					continue
				}
				first := hr[0]
				if first.Err == nil && (cut < fb.msgEnds[0] || !sameMsg(first.Msg, msgs[0])) {
					e.Violate(sig+"/fabricated", fmt.Sprintf("request body cut at offset %d of a %d-byte first frame: the handler was given a message", cut, fb.msgEnds[0]), w)
				}
				laterError := false
				for _, ev := range hr[1:] {
					if ev.Err != nil && ev.Err != io.EOF {
						laterError = true
					}
				}
				// (the unclean end may be reported with the message or by the receive that follows it)
				if first.Err == nil && !laterError && !(cut == fb.msgEnds[0] && end.err == io.EOF) {
					e.Violate(sig+"/unclean-end-accepted", fmt.Sprintf("the request body is one frame of %d bytes followed by %d more bytes and ends with %s: the handler was handed the message as if the request had ended cleanly after it", fb.msgEnds[0], cut-fb.msgEnds[0], end.name), w)
				}
				if cut > 0 && cut < fb.msgEnds[0] && first.Err == io.EOF {
					e.Violate(sig+"/truncation-as-eof", fmt.Sprintf("request body cut inside its only frame (offset %d of %d): the handler saw a clean end of stream", cut, fb.msgEnds[0]), w)
				}
				for _, ev := range hr[1:] {
					if ev.Err == nil {
						e.Violate(sig+"/second-message", "a second receive on a single-request method handed out a message", w)
					}
				}
			}
		}
		// unary: a body that breaks off with a read error is never dispatched
		body, _ := proto.Marshal(m)
		for _, cut := range []int{0, 1, len(body) / 2, len(body)} {
			for _, end := range endings {
				if end.err == io.EOF || cut > len(body) {
					continue
				}
				_, returned, code, pan := serveKind(Unary, append([]byte{}, body[:cut]...), end.err)
				e.Eval(fmt.Sprintf("server-unary-body-error|%s", end.name), true)
				w := map[string]any{"body_len": len(body), "cut": cut, "ending": end.name, "http_status": code}
				if pan != "" {
					e.Violate("server-unary-body-error/panic", trunc(pan, 500), w)
				} else if returned || code == 200 {
					e.Violate("server-unary-body-error/dispatched", fmt.Sprintf("the unary request body broke off after %d of %d bytes with %s, yet the handler ran=%v and the reply is HTTP %d", cut, len(body), end.name, returned, code), w)
				}
			}
		}
	})
	e.Cases("server-prefix", e.N(40, 300), func(i int, r *rand.Rand) {
		pfx := hostile[i%len(hostile)]
		if i >= 2*len(hostile) {
			pfx = int32(r.Uint32())
		}
		nm := r.Intn(3)
		var msgs []*tpb.Message
		for k := 0; k < nm; k++ {
			msgs = append(msgs, &tpb.Message{Payload: []byte(fmt.Sprintf("sp%d-%d", i, k))})
		}
		var b bytes.Buffer
		b.Write(encodeStream(msgs, nil).bytes)
		binary.Write(&b, binary.BigEndian, pfx)
		tail := r.Intn(40)
		b.Write(randBytes(r, tail))
		hr, _, _, _, _, pan, alloc := serve(b.Bytes(), io.EOF)
		e.Eval(fmt.Sprintf("server-prefix|%d|%d", pfx, nm), true)
		w := map[string]any{"prefix": pfx, "messages_before": nm, "alloc": alloc, "handler_receives": len(hr)}
		sig := "server-prefix/" + prefixClass(pfx)
		if pan != "" {
			e.Violate(sig+"/panic", trunc(pan, 500), w)
			return
		}
		limit := uint64(int(perMessageLimit) + 32*b.Len() + allocSlack)
		if alloc > limit {
			e.Violate(sig+"/allocation", fmt.Sprintf("length prefix %d made the server allocate %d MiB", pfx, alloc>>20), w)
		}
		got := 0
		for _, ev := range hr {
			if ev.Err == nil {
				got++
			}
		}
		if (pfx > int32(tail) || pfx < 0) && got > nm {
			e.Violate(sig+"/fabricated", fmt.Sprintf("handler received %d messages, %d were encoded before the hostile prefix %d", got, nm, pfx), w)
		}
	})
}

// unaryCutPhase: the reply body of a unary call breaks off after any number of bytes (as net/http reports
// it: the read fails with io.ErrUnexpectedEOF or a connection error). The call must fail; a complete body
// must give exactly the encoded message.
func unaryCutPhase(e *core.Env, sigPrefix string, n int) {
	e.Cases("unary-cut", n, func(i int, r *rand.Rand) {
		m := genMsg(r, fmt.Sprintf("ucut-%d", i), false)
		if len(m.Payload) > 120 {
			m.Payload = m.Payload[:120]
		}
		m.Count = int32(1 + r.Intn(1000))
		m.Headers = map[string][]byte{"k": []byte("v")}
		full, _ := proto.MarshalOptions{Deterministic: true}.Marshal(m)
		for cut := 0; cut <= len(full); cut++ {
			for _, end := range []error{io.ErrUnexpectedEOF, errors.New("read tcp: connection reset by peer")} {
				complete := cut == len(full)
				var body io.ReadCloser = &cutBody{data: append([]byte{}, full[:cut]...), step: cut % 3, endErr: end}
				if complete {
					body = &cutBody{data: append([]byte{}, full...), step: cut % 3, endErr: io.EOF}
				}
				ch := &httpgrpc.Channel{BaseURL: mustURL("http://ucut.test/"), Transport: rtFunc(func(rq *http.Request) (*http.Response, error) {
					h := http.Header{}
					h.Set("Content-Type", httpgrpc.UnaryRpcContentType_V1)
					h.Set("Content-Length", fmt.Sprint(len(full)))
					return &http.Response{StatusCode: 200, Header: h, Body: body, ContentLength: int64(len(full)), Request: rq, ProtoMajor: 1, ProtoMinor: 1}, nil
				})}
				out := new(tpb.Message)
				var err error
				pan := guard(func() { err = ch.Invoke(context.Background(), Unary.Method(), &tpb.Message{}, out) })
				e.Eval(fmt.Sprintf("unary-cut|%d|%v", cut*8/(len(full)+1), complete), true)
				e.Count("cuts", 1)
				w := map[string]any{"body_len": len(full), "cut": cut, "ending": fmt.Sprint(end), "client_err": fmt.Sprint(err), "got": msgDesc(out)}
				switch {
				case pan != "":
					e.Violate(sigPrefix+"/unary-cut/panic", trunc(pan, 400), w)
				case complete && (err != nil || !sameMsg(out, m)):
					e.Violate(sigPrefix+"/unary-cut/complete-failed", fmt.Sprintf("complete unary reply: err=%v, message equal=%v", err, sameMsg(out, m)), w)
				case !complete && err == nil:
					e.Violate(sigPrefix+"/unary-cut/truncation-as-success", fmt.Sprintf("unary reply body broke off after %d of %d bytes (%v); Invoke returned nil with message {%s}", cut, len(full), end, msgDesc(out)), w)
				}
				if complete {
					break
				}
			}
		}
		// a reply that arrives in full but is not a message at all (wrong type, garbage): an error, not a message
		for gi, garbage := range [][]byte{[]byte("\xff\xff\xff\xff\xff\xff\xff\xff\xff\xff\x01"), []byte("<html>not a message</html>"), {0x0a, 0x7f, 'x'}} {
			ch := &httpgrpc.Channel{BaseURL: mustURL("http://ucut.test/"), Transport: rtFunc(func(rq *http.Request) (*http.Response, error) {
				h := http.Header{}
				h.Set("Content-Type", httpgrpc.UnaryRpcContentType_V1)
				return &http.Response{StatusCode: 200, Header: h, Body: io.NopCloser(bytes.NewReader(garbage)), ContentLength: int64(len(garbage)), Request: rq, ProtoMajor: 1, ProtoMinor: 1}, nil
			})}
			out := new(tpb.Message)
			var err error
			pan := guard(func() { err = ch.Invoke(context.Background(), Unary.Method(), &tpb.Message{}, out) })
			e.Eval(fmt.Sprintf("unary-garbage|%d", gi), true)
			w := map[string]any{"body": fmt.Sprintf("%q", garbage), "client_err": fmt.Sprint(err), "got": msgDesc(out)}
			if pan != "" {
				e.Violate(sigPrefix+"/unary-cut/panic", trunc(pan, 400), w)
			} else if err == nil {
				e.Violate(sigPrefix+"/unary-cut/undecodable-as-success", fmt.Sprintf("the unary reply body %q is not a message; Invoke returned nil with message {%s}", garbage, msgDesc(out)), w)
			}
		}
	})
}

func prefixClass(p int32) string {
	switch {
	case p == 0:
		return "zero"
	case p == -2147483648:
		return "min-int32"
	case p < 0:
		return "negative"
	case p > perMessageLimit:
		return "over-limit"
	default:
		return "within-limit"
	}
}

func judgeClientDecode(e *core.Env, sig string, res clientResult, fb *framedBody, cut int, w map[string]any) {
	if res.pan != "" {
		e.Violate(sig+"/panic", trunc(res.pan, 500), w)
		return
	}
	if res.hung {
		e.Violate(sig+"/endless", "the client kept delivering messages", w)
		return
	}
	if res.alloc > uint64(int(perMessageLimit)+32*len(fb.bytes)+allocSlack) {
		e.Violate(sig+"/allocation", fmt.Sprintf("decoding %d bytes allocated %d MiB", cut, res.alloc>>20), w)
	}
	complete := 0
	for _, me := range fb.msgEnds {
		if me <= cut {
			complete++
		}
	}
	for k, m := range res.msgs {
		if k >= len(fb.msgs) || !sameMsg(m, fb.msgs[k]) {
			e.Violate(sig+"/fabricated", fmt.Sprintf("delivered message #%d is not the encoded one", k), w)
			return
		}
	}
	if len(res.msgs) > complete {
		e.Violate(sig+"/fabricated", fmt.Sprintf("%d messages delivered, only %d complete frames precede the cut", len(res.msgs), complete), w)
	}
	success := res.err == io.EOF
	if cut >= fb.okEnd && fb.trailer != nil {
		if fb.trailer.Code == 0 {
			if !success {
				e.Violate(sig+"/complete-ok-failed", fmt.Sprintf("complete body with OK trailer: client saw %v", res.err), w)
			} else if len(res.msgs) != len(fb.msgs) {
				e.Violate(sig+"/lost", fmt.Sprintf("complete body: %d of %d messages delivered", len(res.msgs), len(fb.msgs)), w)
			}
		} else if success || status.Code(res.err) != codes.Code(fb.trailer.Code) {
			e.Violate(sig+"/complete-error-wrong", fmt.Sprintf("complete body with trailer code %d: client saw %v", fb.trailer.Code, res.err), w)
		}
		return
	}
	if success || res.err == nil {
		e.Violate(sig+"/truncation-as-success", fmt.Sprintf("body cut at offset %d of %d, before the end of the trailer frame, but the call was reported as successful", cut, fb.okEnd), w)
	}
}

// parseReplyFrames splits a streaming reply body; returns data frames and the number of trailer frames.
func parseReplyFrames(b []byte) (data [][]byte, trailers int) {
	for len(b) >= 4 {
		sz := int32(binary.BigEndian.Uint32(b))
		b = b[4:]
		n := int(sz)
		if sz < 0 {
			n = -n
		}
		if n > len(b) {
			return data, trailers
		}
		if sz < 0 {
			trailers++
		} else {
			data = append(data, b[:n])
		}
		b = b[n:]
	}
	return data, trailers
}
