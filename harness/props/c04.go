package props

import (
	"context"
	"errors"
	"fmt"
	"github.com/fullstorydev/grpchan/inprocgrpc"
	"google.golang.org/grpc"
	"io"
	"math/rand"
	"os"
	"strings"
	"sync"
	"sync/atomic"
	"time"

	tpb "github.com/fullstorydev/grpchan/grpchantesting"
	"github.com/fullstorydev/grpchan/httpgrpc"
	"google.golang.org/grpc/codes"
	"google.golang.org/grpc/metadata"
	"google.golang.org/grpc/status"
	"google.golang.org/protobuf/proto"
	"net/http"

	"verifharness/core"
)

func init() {
	core.Register("C04", checkC04)
	core.RegisterRace("C04", func(e *core.Env) { runC04(e, 10, 20) })
}

// vdCtx is a context whose deadline is far away on the wall clock but which
// the harness expires at a chosen logical step.
type vdCtx struct {
	context.Context
	done chan struct{}
	mu   sync.Mutex
	err  error
	dl   time.Time
}

func newVD() *vdCtx {
	return &vdCtx{Context: context.Background(), done: make(chan struct{}), dl: time.Now().Add(6 * time.Hour)}
}
func (c *vdCtx) Deadline() (time.Time, bool) { return c.dl, true }
func (c *vdCtx) Done() <-chan struct{}       { return c.done }
func (c *vdCtx) Err() error {
	c.mu.Lock()
	defer c.mu.Unlock()
	return c.err
}
func (c *vdCtx) Fire() {
	c.mu.Lock()
	defer c.mu.Unlock()
	if c.err == nil {
		c.err = context.DeadlineExceeded
		close(c.done)
	}
}

// genCancelScript: small flows; handlerMode ignore|honour|ctxerr; gateAt = index
// in the handler's op list where a gate is inserted (-1 none).
func genCancelScript(r *rand.Rand, kind Kind, half bool, handlerMode string, gateAt int) *Script {
	tag := fmt.Sprintf("%016x", r.Uint64())
	s := &Script{Kind: kind}
	nReq, nResp := 1, 1
	if kind.ClientStreams() {
		nReq = 1 + r.Intn(3)
	}
	if kind.ServerStreams() {
		nResp = r.Intn(4)
	}
	mk := func(d string, i int) *tpb.Message {
		return &tpb.Message{Payload: []byte(fmt.Sprintf("%s/%s/%d", tag, d, i)), Count: int32(i)}
	}
	if r.Intn(2) == 0 {
		s.Handler = append(s.Handler, Op{Op: "sethdr", MD: metadata.MD{"hdr-key": {"hv1", "hv2"}}})
	}
	if kind == Unary {
		s.UnaryReq, s.Resp = mk("c", 0), mk("s", 0)
		s.NHdrOpt, s.NTrlOpt = 1, 1
	} else {
		for i := 0; i < nReq; i++ {
			s.Sender = append(s.Sender, Op{Op: "send", Msg: mk("c", i)})
		}
		s.Sender = append(s.Sender, Op{Op: "close"})
		if kind.ClientStreams() {
			s.Handler = append(s.Handler, Op{Op: "recvall"})
		} else {
			s.Handler = append(s.Handler, Op{Op: "recv"})
		}
		for i := 0; i < nResp; i++ {
			s.Handler = append(s.Handler, Op{Op: "send", Msg: mk("s", i)})
		}
		if kind.ServerStreams() {
			s.Receiver = []Op{{Op: "recvall"}, {Op: "recv"}, {Op: "recv"}}
		} else {
			s.Receiver = []Op{{Op: "recv"}, {Op: "recv"}}
		}
		if r.Intn(3) == 0 {
			s.Receiver = append([]Op{{Op: "header"}}, s.Receiver...)
		}
		s.RecvAfterSend = half
	}
	if r.Intn(2) == 0 {
		s.Handler = append(s.Handler, Op{Op: "settrl", MD: metadata.MD{"trl-key": {"tv"}}})
	}
	if r.Intn(4) == 0 {
		s.Ret = Ret{How: "status", Code: 9, Msg: "real failure"}
	}
	gate := Op{Op: "gate", Gate: "g"}
	switch handlerMode {
	case "honour":
		gate.Op = "gatectx"
	case "ctxerr":
		gate = Op{Op: "waitctx"}
		s.Ret = Ret{How: "ctxerr"}
	}
	if gateAt >= 0 || handlerMode == "ctxerr" {
		if gateAt < 0 || gateAt > len(s.Handler) {
			gateAt = len(s.Handler)
		}
		h := append([]Op{}, s.Handler[:gateAt]...)
		h = append(h, gate)
		if handlerMode == "ctxerr" {
			s.Handler = h // return ctx.Err() right after the context ended
		} else {
			s.Handler = append(h, s.Handler[gateAt:]...)
		}
	}
	return s
}

var (
	errC04Cause    = errors.New("the caller's reason for ending the call")
	c04CauseToggle atomic.Int64
)

type cancelVerdict struct {
	sig, msg string
}

// cancelOracle judges every client receive / unary result that returned after
// the context ended (logical time tEnd).
func cancelOracle(run *Run, mode string, tEnd int64, c *Carrier) []cancelVerdict {
	var out []cancelVerdict
	add := func(sig, msg string) { out = append(out, cancelVerdict{sig, msg}) }
	want := codes.Canceled
	if mode == "deadline" {
		want = codes.DeadlineExceeded
	}
	evs := run.Events()
	herr, hret := run.HandlerReturn()
	var hsent []*tpb.Message
	hsendOK := 0
	for _, e := range evs {
		if e.Pan != "" {
			add("panic", e.Who+"."+e.Op+": "+trunc(e.Pan, 400))
		}
		if e.Who == "h" && e.Op == "send" {
			if e.Call {
				hsent = append(hsent, e.Msg)
			} else if e.Err == nil {
				hsendOK++
			}
		}
	}
	realStatus := func(err error) bool {
		// is err the handler's genuine final status?
		if !hret || herr == nil {
			return false
		}
		exp := expectedStatus(run.S.Ret)
		if run.S.Ret.How == "ctxerr" {
			exp = status.FromContextError(herr).Proto()
		}
		if exp == nil {
			return false
		}
		ok, _ := sameStatus(status.Convert(err).Proto(), exp)
		return ok
	}
	got := 0
	for _, e := range evs {
		if e.Call || (e.Who != "cs" && e.Who != "cr") {
			continue
		}
		switch e.Op {
		case "invoke":
			if e.T < tEnd {
				continue
			}
			if e.Err == nil {
				// complete real result required
				if !hret || herr != nil {
					add("unary/success-without-handler-success", fmt.Sprintf("Invoke returned nil after the context ended although the handler returned %v (returned=%v)", herr, hret))
					continue
				}
				if !sameMsg(e.Msg, run.S.Resp) {
					add("unary/success-wrong-response", "Invoke returned nil with a response other than the handler's")
				}
				for _, p := range metaOracle(run) {
					add("unary/success-incomplete/"+p[0], "Invoke returned nil after the context ended but the result is incomplete: "+p[1])
				}
				continue
			}
			st, ok := status.FromError(e.Err)
			switch {
			case !ok:
				add("unary/non-status-error", fmt.Sprintf("Invoke returned a non-status error after the context ended: %v (%T)", e.Err, e.Err))
			case st.Code() == want:
			case realStatus(e.Err):
			default:
				add("unary/wrong-code", fmt.Sprintf("Invoke returned %v after %s; want code %v or the handler's real status", e.Err, mode, want))
			}
		case "newstream":
			// a stream opened on a context that has already ended may be refused at once: with a status then
			if e.Err != nil && !e.Call {
				st, ok := status.FromError(e.Err)
				switch {
				case !ok:
					add("stream/non-status-error", fmt.Sprintf("NewStream returned a non-status error for a context that had ended: %v (%T)", e.Err, e.Err))
				case st.Code() == want:
				case realStatus(e.Err):
				default:
					add("stream/wrong-code", fmt.Sprintf("NewStream returned %v after %s; want code %v", e.Err, mode, want))
				}
			}
		case "recv":
			if e.Err == nil {
				got++
				if e.T >= tEnd && (got > len(hsent) || !sameMsg(e.Msg, hsent[got-1])) {
					add("stream/fabricated-message", "RecvMsg returned a message after the context ended that the handler did not send at that position")
				}
				continue
			}
			if e.T < tEnd {
				continue
			}
			if e.Err == io.EOF {
				single := !run.S.Kind.ServerStreams()
				if hret && herr == nil && (got == hsendOK || (single && got >= 1)) {
					continue // the real, complete end of the stream
				}
				add("stream/bare-eof", fmt.Sprintf("RecvMsg returned io.EOF after %s although the call did not complete successfully (handler returned=%v err=%v, received %d of %d)", mode, hret, herr, got, hsendOK))
				continue
			}
			st, ok := status.FromError(e.Err)
			switch {
			case !ok:
				add("stream/non-status-error", fmt.Sprintf("RecvMsg returned a non-status error after the context ended: %v (%T)", e.Err, e.Err))
			case st.Code() == want:
			case realStatus(e.Err):
			case st.Code() == codes.Internal && !run.S.Kind.ServerStreams() && got >= 1:
				// cardinality probe outcome of a completed exchange: judged by C08
			default:
				add("stream/wrong-code", fmt.Sprintf("RecvMsg returned %v after %s; want code %v or the handler's real status", e.Err, mode, want))
			}
		}
	}
	return out
}

// handlerCtxRequired: must the handler's context end after the caller's did?
func handlerCtxRequired(c *Carrier, kind Kind, run *Run, tEnd int64) bool {
	if c.Inproc || kind == Unary {
		return true
	}
	// net/http notices a vanished client only once the request body was consumed to EOF
	for _, ev := range run.Events() {
		if ev.Who == "h" && ev.Op == "recv" && !ev.Call && ev.T < tEnd && (ev.Err == io.EOF || (ev.Err == nil && kind == ServerStream)) {
			return true
		}
	}
	return false
}

type placement struct {
	kind string // hook | gate | before
	idx  int
}

type placeResult struct {
	run      *Run
	tEnd     int64
	parkedAt string
	finished bool
	stuck    bool
	dump     string
	prompt   bool // client finished while the handler was still parked (gate placements)
	ctxDone  bool
	reached  bool // the placement point was reached
	needCtx  bool // the handler's context is required to end
	hits     []string
}

// runPlaced executes sc on c, ends the caller's context at the placement and
// lets everything finish.
func runPlaced(c *Carrier, sc *Script, mode string, pl placement) (res0 placeResult) {
	if os.Getenv("VCHECK_DEBUG") != "" {
		t0 := time.Now()
		defer func() {
			fmt.Fprintf(os.Stderr, "runPlaced %s %s %s %v: %v reached=%v finished=%v\n", c.Name, sc.Shape(), mode, pl, time.Since(t0), res0.reached, res0.finished)
		}()
	}
	installHooks()
	run := c.Svc.NewRun(sc, c.Name)
	plan := newHookPlan()
	if pl.kind == "hook" {
		plan.parkAt = pl.idx
	}
	hookPlans.Store(run.ID, plan)
	defer hookPlans.Delete(run.ID)
	defer c.Svc.Forget(run)
	res := placeResult{run: run}
	vd := newVD()
	var parent context.Context = context.Background()
	var preCancel context.CancelFunc
	if mode == "deadline" {
		parent = vd
	} else if c04CauseToggle.Add(1)%2 == 0 {
		parent, preCancel = context.WithCancel(parent)
	} else {
		// every other cancellation carries a cause (context.WithCancelCause): Err() is still Canceled
		var cf context.CancelCauseFunc
		parent, cf = context.WithCancelCause(parent)
		preCancel = func() { cf(errC04Cause) }
	}
	end := func() {
		res.tEnd = core.Tick()
		if mode == "deadline" {
			vd.Fire()
		} else {
			preCancel()
		}
	}
	if pl.kind == "before" {
		end()
		res.reached = true
	}
	done := make(chan struct{})
	go func() {
		res.finished, _ = run.Exec(c.CC, parent, 30*time.Second)
		close(done)
	}()
	// wait for the placement: a goroutine parked at the chosen hook, or the
	// handler parked at its gate with a quiet event log
	last, quiet := -1, 0
	ended := pl.kind == "before"
wait:
	for i := 0; i < 15000; i++ {
		select {
		case <-done:
			break wait
		case pt := <-plan.parked:
			res.parkedAt, res.reached = pt, true
			end()
			ended = true
			// give watchers of the context a moment to observe the end before the parked goroutine goes on
			time.Sleep(600 * time.Microsecond)
			plan.Release()
			break wait
		default:
		}
		evs := run.Events()
		parkedNow, waitsCtx := false, false
		for _, ev := range evs {
			if ev.Who == "h" && (strings.HasPrefix(ev.Op, "gate:") || ev.Op == "waitctx") {
				parkedNow = ev.Call
				waitsCtx = ev.Call && ev.Op == "waitctx"
			}
		}
		if parkedNow && len(evs) == last {
			quiet++
		} else {
			quiet = 0
		}
		last = len(evs)
		if parkedNow && quiet >= 3 && (pl.kind == "gate" || (waitsCtx && !ended)) {
			res.reached = pl.kind == "gate"
			end()
			ended = true
			if pl.kind == "gate" {
				// the client must return while the handler is still parked
				fin, stuck, dump := waitDoneOrStuck(run.ClientDone, 20*time.Second)
				res.prompt = fin
				if stuck {
					res.stuck, res.dump = true, dump
				}
				// grace for the handler-side context watcher (only where the end of the context is required)
				res.needCtx = handlerCtxRequired(c, sc.Kind, run, res.tEnd)
				for i := 0; res.needCtx && i < 2500 && !run.HandlerCtxDone.Load(); i++ {
					time.Sleep(2 * time.Millisecond)
				}
				res.ctxDone = run.HandlerCtxDone.Load()
				run.ReleaseAll()
			}
			break wait
		}
		if parkedNow && quiet >= 3 && pl.kind != "gate" && !waitsCtx {
			// a handler gate in a hook/dry run: open it
			run.ReleaseAll()
		}
		time.Sleep(2 * time.Millisecond)
	}
	run.ReleaseAll()
	fin, stuck, dump := waitDoneOrStuck(done, 30*time.Second)
	if !fin {
		res.stuck = res.stuck || stuck
		if res.dump == "" {
			res.dump = dump
		}
		// free everything so that the process can go on
		if run.Cancel != nil {
			run.Cancel()
		}
		vd.Fire()
		if preCancel != nil {
			preCancel()
		}
		run.ReleaseAll()
		plan.Release()
		select {
		case <-done:
		case <-time.After(5 * time.Second):
		}
	} else {
		res.finished = true
	}
	if run.Cancel != nil {
		run.Cancel()
	}
	plan.Release()
	res.hits = plan.Hits()
	return res
}

func checkC04(e *core.Env) {
	curEnv = e
	e.SetRule("for generated small scripts of every kind on the in-process and HTTP carriers: a dry run records the schedule points (library hooks at every frame boundary, handler gates, call start); the script is re-run once per point with the caller's context ended exactly there (manual cancel or a virtual deadline fired by the harness), with handlers that ignore, honour or return their context error; oracle: every unary result / receive returning after the end is the complete real result or a status with the matching code, never nil-with-missing-data, bare io.EOF or a non-status error, later receives likewise; the client must return while an ignoring handler is still parked; the handler's context must end; distinct = (carrier, kind, handler mode, end mode, point name)")
	e.Assume("over HTTP/1.1 a handler's context is required to end only for unary calls and once the client has closed its send side (net/http detects a vanished client only at request-body EOF)")
	runC04(e, e.N(36, 300), e.N(40, 80))
}

// gatedBody delivers its first part, then blocks until the request's context
// ends and fails with the context's error, like net/http's response bodies do.
type gatedBody struct {
	first  []byte
	ctx    context.Context
	inRead chan struct{}
	once   sync.Once
	closed chan struct{} // closed by Close (optional)
	conce  sync.Once
}

func (b *gatedBody) Read(p []byte) (int, error) {
	if len(b.first) > 0 {
		n := copy(p, b.first)
		b.first = b.first[n:]
		return n, nil
	}
	b.once.Do(func() { close(b.inRead) })
	<-b.ctx.Done()
	return 0, b.ctx.Err()
}
func (b *gatedBody) Close() error {
	if b.closed != nil {
		b.conce.Do(func() { close(b.closed) })
	}
	return nil
}

// runC04Extra: (1) handlers that return a bare context error while the caller's
// context is alive; (2) the context ends while the reply body is only partly there.
func runC04Extra(e *core.Env) {
	cs := stdCarriers()
	defer cs.Close()
	runC04NoMetadata(e)
	e.Cases("handler-ctx-error", e.N(60, 600), func(i int, r *rand.Rand) {
		kind := Kind(i % 4)
		for _, c := range cs.list {
			sc := genCancelScript(r, kind, c.HTTP, "ignore", -1)
			how := pick(r, "canceled", "deadline", "wrapped-canceled", "wrapped-deadline", "joined-canceled", "joined-deadline")
			sc.Ret = Ret{How: how}
			run, ok, _ := execScript(c, sc, nil)
			if !ok {
				e.Inconclusive("C04 handler-ctx-error %s: watchdog", c.Name)
				continue
			}
			e.Eval(fmt.Sprintf("hctxerr|%s|%s|%s", c.Name, kind, how), true)
			want := codes.Canceled
			if strings.HasSuffix(how, "deadline") {
				want = codes.DeadlineExceeded
			}
			out := run.ClientOutcome()
			if _, ret := run.HandlerReturn(); !ret || !out.Seen {
				continue
			}
			if st, isSt := status.FromError(out.Err); out.OK || !isSt || st.Code() != want {
				e.Violate(fmt.Sprintf("%s/%s/handler-ctxerr-wrong-code", c.Name, kindClass(kind)), fmt.Sprintf("handler returned context error %q while the caller's context was alive; client saw %v, want code %v", how, out.Err, want), witness(run))
			}
		}
	})
	// the context ends while no receive is pending (the client is between two receives) and the server has not
	// finished: the receives that follow report the context's status
	e.Cases("cancel-between-receives", e.N(24, 240), func(i int, r *rand.Rand) {
		for _, c := range cs.list {
			mode := pick(r, "cancel", "deadline")
			mk := func(k int) *tpb.Message { return &tpb.Message{Payload: []byte(fmt.Sprintf("between-%d-%d", i, k))} }
			sc := &Script{Kind: ServerStream, RecvAfterSend: c.HTTP}
			sc.Sender = []Op{{Op: "send", Msg: mk(100)}, {Op: "close"}}
			sc.Handler = []Op{{Op: "recv"}, {Op: "send", Msg: mk(0)}, {Op: "send", Msg: mk(1)}, {Op: "gate", Gate: "hold"}, {Op: "send", Msg: mk(2)}}
			sc.Receiver = []Op{{Op: "recv"}, {Op: "recv"}, {Op: "gate", Gate: "idle"}, {Op: "recv"}, {Op: "recv"}}
			run := c.Svc.NewRun(sc, c.Name)
			vd := newVD()
			var parent context.Context = vd
			var cancel context.CancelFunc = vd.Fire
			if mode == "cancel" {
				parent, cancel = context.WithCancel(context.Background())
			}
			done := make(chan struct{})
			go func() {
				run.Exec(c.CC, parent, watchdog)
				close(done)
			}()
			// wait for the client to sit at its gate
			reached := false
			for k := 0; k < 5000 && !reached; k++ {
				for _, ev := range run.Events() {
					if ev.Who == "cr" && ev.Op == "gate:idle" && ev.Call {
						reached = true
					}
				}
				if !reached {
					time.Sleep(time.Millisecond)
				}
			}
			tEnd := core.Tick()
			cancel()
			time.Sleep(3 * time.Millisecond) // whatever watches the context inside the library gets to see it first
			run.Release("idle")
			fin, stuck, dump := waitDoneOrStuck(run.ClientDone, 20*time.Second)
			run.ReleaseAll()
			<-done
			vd.Fire()
			run.Cancel()
			c.Svc.Forget(run)
			e.Eval(fmt.Sprintf("cancel-between-receives|%s|%s", c.Name, mode), reached)
			if !reached {
				e.Inconclusive("C04 cancel-between-receives: the client did not reach its pause on %s", c.Name)
				continue
			}
			if !fin {
				if stuck {
					e.Violate(fmt.Sprintf("%s/stream/between-receives/not-prompt", c.Name), "receives issued after the context had ended did not return: "+parkedSummary(dump), witness(run))
				}
				continue
			}
			for _, v := range cancelOracle(run, mode, tEnd, c) {
				e.Violate(fmt.Sprintf("%s/stream/between-receives/%s", c.Name, v.sig), fmt.Sprintf("[context ended (%s) between two receives] %s", mode, v.msg), witness(run))
			}
		}
	})
	// real, short deadlines: the client-side and the server-side timer race each other and the handler's work
	e.Cases("real-deadline", e.N(120, 1500), func(i int, r *rand.Rand) {
		kind := Kind(i % 4)
		for _, c := range cs.list {
			sc := genCancelScript(r, kind, c.HTTP, "ignore", -1)
			work := time.Duration(r.Intn(12000)) * time.Microsecond
			pos := r.Intn(len(sc.Handler) + 1)
			h := append([]Op{}, sc.Handler[:pos]...)
			h = append(h, Op{Op: "sleepctx", Gate: work.String()})
			sc.Handler = append(h, sc.Handler[pos:]...)
			if r.Intn(3) == 0 {
				sc.Ret = Ret{How: "ctxerr"}
				sc.Handler = append(sc.Handler[:pos+1:pos+1], Op{Op: "waitctx"})
			}
			dl := time.Duration(500+r.Intn(9000)) * time.Microsecond
			parent, cancel := context.WithTimeout(context.Background(), dl)
			if r.Intn(2) == 0 {
				// a deadline with a cause (context.WithTimeoutCause): Err() is still DeadlineExceeded
				cancel()
				parent, cancel = context.WithTimeoutCause(context.Background(), dl, errC04Cause)
			}
			run := c.Svc.NewRun(sc, c.Name)
			ok, _ := run.Exec(c.CC, parent, watchdog)
			cancel()
			run.Cancel()
			c.Svc.Forget(run)
			if !ok {
				run.ReleaseAll()
				e.Violate(fmt.Sprintf("%s/%s/real-deadline/not-prompt", c.Name, kindClass(kind)), fmt.Sprintf("a call with a %v deadline (handler working %v) did not finish", dl, work), witness(run))
				continue
			}
			e.Eval(fmt.Sprintf("real-deadline|%s|%s|%v", c.Name, kind, work > dl), true)
			for _, v := range cancelOracle(run, "deadline", 0, c) {
				e.Violate(fmt.Sprintf("%s/%s/real-deadline/%s", c.Name, kindClass(kind), v.sig), fmt.Sprintf("[deadline %v, handler works %v] %s", dl, work, v.msg), witness(run))
			}
		}
	})

	e.Cases("partial-body", e.N(60, 600), func(i int, r *rand.Rand) {
		stream := i%2 == 0
		mode := []string{"cancel", "deadline"}[(i/2)%2]
		want := codes.Canceled
		if mode == "deadline" {
			want = codes.DeadlineExceeded
		}
		msgs := []*tpb.Message{{Payload: []byte("m0")}, {Payload: randBytes(r, 10+r.Intn(200))}}
		var full []byte
		if stream {
			full = encodeStream(msgs, &httpgrpc.HttpTrailer{Message: "OK"}).bytes
		} else {
			full, _ = proto.Marshal(msgs[1])
		}
		cut := 1 + r.Intn(len(full)-1)
		vd := newVD()
		var parent context.Context = context.Background()
		cancel := func() {}
		if mode == "deadline" {
			parent = vd
		} else {
			parent, cancel = context.WithCancel(parent)
		}
		defer cancel()
		var bodyP atomic.Pointer[gatedBody]
		ch := &httpgrpc.Channel{BaseURL: mustURL("http://c04.test/"), Transport: rtFunc(func(rq *http.Request) (*http.Response, error) {
			if rq.Body != nil {
				go io.Copy(io.Discard, rq.Body)
			}
			body := &gatedBody{first: append([]byte{}, full[:cut]...), ctx: rq.Context(), inRead: make(chan struct{})}
			bodyP.Store(body)
			h := http.Header{}
			if stream {
				h.Set("Content-Type", httpgrpc.StreamRpcContentType_V1)
			} else {
				h.Set("Content-Type", httpgrpc.UnaryRpcContentType_V1)
				h.Set("Content-Length", fmt.Sprint(len(full)))
			}
			return &http.Response{StatusCode: 200, Header: h, Body: body, Request: rq, ProtoMajor: 1, ProtoMinor: 1}, nil
		})}
		var errs []error
		done := make(chan struct{})
		go func() {
			defer close(done)
			if !stream {
				errs = append(errs, ch.Invoke(parent, Unary.Method(), &tpb.Message{}, new(tpb.Message)))
				return
			}
			st, err := ch.NewStream(parent, ServerStream.StreamDesc(), ServerStream.Method())
			if err != nil {
				errs = append(errs, err)
				return
			}
			st.SendMsg(&tpb.Message{})
			st.CloseSend()
			nonNil := 0
			for k := 0; k < 8 && nonNil < 3; k++ {
				err := st.RecvMsg(new(tpb.Message))
				if err != nil {
					nonNil++
					errs = append(errs, err)
				}
			}
		}()
		// wait until the library is blocked reading the rest of the body
		for k := 0; k < 5000; k++ {
			if body := bodyP.Load(); body != nil {
				select {
				case <-body.inRead:
					k = 1 << 30
				default:
				}
			}
			time.Sleep(200 * time.Microsecond)
		}
		if mode == "deadline" {
			vd.Fire()
		} else {
			cancel()
		}
		select {
		case <-done:
		case <-time.After(30 * time.Second):
			e.Violate("http/partial-body/not-prompt", fmt.Sprintf("the context ended (%s) while the reply body was partly received (stream=%v); the call did not return", mode, stream), nil)
			return
		}
		e.Eval(fmt.Sprintf("partial-body|%v|%s|%d", stream, mode, cut*8/len(full)), true)
		for k, err := range errs {
			st, isSt := status.FromError(err)
			if err == nil || !isSt || st.Code() != want {
				which := "unary call"
				if stream {
					which = fmt.Sprintf("receive #%d after the end", k)
				}
				e.Violate(fmt.Sprintf("http/%s/partial-body/%s", map[bool]string{true: "stream", false: "unary"}[stream], mode), fmt.Sprintf("the context ended (%s) while %d of %d reply-body bytes had arrived: %s returned %v (%T), want a status with code %v", mode, cut, len(full), which, err, err, want), map[string]any{"stream": stream, "mode": mode, "cut": cut, "body_len": len(full), "errors": fmt.Sprint(errs)})
				break
			}
		}
	})
}

// runC04Descheduled: a unary call over HTTP whose goroutine is held between the reply's headers and the wait
// for its body (the library's schedule point there) while the context ends and the body reader, which net/http
// fails with the context's error, finishes first. When the caller's goroutine goes on, both "context ended" and
// "body read finished (with an error)" are true: the call reports the cancellation as a status either way.
// The choice between the two is the runtime's, so each case is repeated.
func runC04Descheduled(e *core.Env) {
	installHooks()
	e.Cases("partial-body-descheduled", e.N(12, 120), func(i int, r *rand.Rand) {
		mode := []string{"cancel", "deadline"}[i%2]
		want := codes.Canceled
		if mode == "deadline" {
			want = codes.DeadlineExceeded
		}
		full, _ := proto.Marshal(&tpb.Message{Payload: randBytes(r, 10+r.Intn(200))})
		cut := 1 + r.Intn(len(full)-1)
		for rep := 0; rep < 10; rep++ {
			id := fmt.Sprintf("desched-%d-%d-%d", i, rep, r.Int63())
			plan := newHookPlan()
			plan.parkPt, plan.parkNth = "http.unary.before-select", 1
			hookPlans.Store(id, plan)
			vd := newVD()
			var parent context.Context = context.Background()
			cancel := func() {}
			if mode == "deadline" {
				parent = vd
			} else {
				parent, cancel = context.WithCancel(parent)
			}
			parent = metadata.AppendToOutgoingContext(parent, runKey, id)
			closed := make(chan struct{})
			ch := &httpgrpc.Channel{BaseURL: mustURL("http://c04.test/"), Transport: rtFunc(func(rq *http.Request) (*http.Response, error) {
				body := &gatedBody{first: append([]byte{}, full[:cut]...), ctx: rq.Context(), inRead: make(chan struct{}), closed: closed}
				h := http.Header{}
				h.Set("Content-Type", httpgrpc.UnaryRpcContentType_V1)
				h.Set("Content-Length", fmt.Sprint(len(full)))
				return &http.Response{StatusCode: 200, Header: h, Body: body, Request: rq, ProtoMajor: 1, ProtoMinor: 1}, nil
			})}
			res := make(chan error, 1)
			go func() { res <- ch.Invoke(parent, Unary.Method(), &tpb.Message{}, new(tpb.Message)) }()
			placed := false
			select {
			case <-plan.parked:
				placed = true
			case <-time.After(watchdog):
			}
			if mode == "deadline" {
				vd.Fire()
			} else {
				cancel()
			}
			if placed {
				// the body reader has finished (it closes the body when it has)
				select {
				case <-closed:
				case <-time.After(5 * time.Second):
					placed = false
				}
			}
			plan.Release()
			hookPlans.Delete(id)
			var err error
			select {
			case err = <-res:
			case <-time.After(watchdog):
				e.Inconclusive("C04 partial-body-descheduled: Invoke did not return")
				cancel()
				return
			}
			cancel()
			if !placed {
				e.Inconclusive("C04 partial-body-descheduled: placement not reached")
				return
			}
			e.Eval("partial-body-descheduled|"+mode, true)
			e.Count("descheduled_placements", 1)
			if st, isSt := status.FromError(err); err == nil || !isSt || st.Code() != want {
				e.Violate("http/unary/partial-body-descheduled/"+mode, fmt.Sprintf("the context ended (%s) while %d of %d reply-body bytes had arrived and the caller's goroutine was between the reply's headers and its wait for the body: Invoke returned %v (%T), want a status with code %v", mode, cut, len(full), err, err, want), map[string]any{"mode": mode, "cut": cut, "repetition": rep})
				return
			}
		}
	})
}

// ctxCreds are per-RPC credentials; with honour set they do what credentials that fetch a token do: give up
// with the context's error when the context has ended.
type ctxCreds struct{ honour bool }

func (c ctxCreds) GetRequestMetadata(ctx context.Context, _ ...string) (map[string]string, error) {
	if c.honour {
		if err := ctx.Err(); err != nil {
			return nil, fmt.Errorf("fetching token: %w", err)
		}
	}
	return map[string]string{"authorization": "token"}, nil
}
func (ctxCreds) RequireTransportSecurity() bool { return false }

// runC04Credentials: calls started on a context that has already ended, with per-RPC credentials among the call
// options (credentials that ignore the context and credentials that give up with its error): a later call on an
// ended context returns a Canceled / DeadlineExceeded status like any other, never a bare or wrapped context error.
func runC04Credentials(e *core.Env) {
	inp := NewInproc(&Service{}, carrierOpt{})
	htt := NewHTTPServer(&Service{}, carrierOpt{})
	defer inp.Close()
	defer htt.Close()
	caseNo := 0
	for _, c := range []*Carrier{inp, htt} {
		for _, honour := range []bool{false, true} {
			for _, mode := range []string{"cancel", "deadline"} {
				for _, stream := range []bool{false, true} {
					caseNo++
					if !e.Selected("ended-context-with-credentials", caseNo) {
						continue
					}
					e.Begin("ended-context-with-credentials", caseNo, fmt.Sprintf("%s honour=%v %s stream=%v", c.Name, honour, mode, stream))
					want := codes.Canceled
					ctx, cancel := context.WithCancel(context.Background())
					if mode == "deadline" {
						want = codes.DeadlineExceeded
						ctx, cancel = context.WithDeadline(context.Background(), time.Unix(1, 0))
					}
					cancel()
					opt := grpc.PerRPCCredentials(ctxCreds{honour: honour})
					var err error
					pan := guard(func() {
						if !stream {
							err = c.CC.Invoke(ctx, Unary.Method(), &tpb.Message{}, new(tpb.Message), opt)
							return
						}
						var st grpc.ClientStream
						st, err = c.CC.NewStream(ctx, ServerStream.StreamDesc(), ServerStream.Method(), opt)
						if err == nil {
							st.SendMsg(&tpb.Message{})
							st.CloseSend()
							err = st.RecvMsg(new(tpb.Message))
						}
					})
					e.Eval(fmt.Sprintf("ended-context-with-credentials|%s|%v|%s|%v", c.Name, honour, mode, stream), true)
					kind := map[bool]string{true: "stream", false: "unary"}[stream]
					w := map[string]any{"carrier": c.Name, "credentials_honour_context": honour, "mode": mode, "stream": stream, "error": fmt.Sprint(err)}
					if pan != "" {
						e.Violate(c.Name+"/"+kind+"/ended-context-with-credentials/panic", trunc(pan, 400), w)
						continue
					}
					if st, isSt := status.FromError(err); err == nil || !isSt || st.Code() != want {
						e.Violate(fmt.Sprintf("%s/%s/ended-context-with-credentials/%s", c.Name, kind, map[bool]string{true: "non-status-error", false: "wrong-code"}[!isSt]), fmt.Sprintf("a call with per-RPC credentials (honouring the context: %v) started after the context had ended (%s) returned %v (%T), want a status with code %v", honour, mode, err, err, want), w)
					}
				}
			}
		}
	}
}

// runC04NoMixture: a unary call that returned Canceled has returned for good - when the handler's reply arrives
// afterwards (a handler that ignores its context; a reply body that completes late) nothing of it is written
// into the reply object, which the caller may already be using for its next call: cancellation status or the
// complete result, never the one followed by the other.
func runC04NoMixture(e *core.Env) {
	inp := NewInproc(&Service{}, carrierOpt{})
	defer inp.Close()
	e.Cases("no-mixture-after-cancel", e.N(30, 300), func(i int, r *rand.Rand) {
		if i%2 == 0 {
			_, _, resp, placed := earlyReturnUnaryResp(e, "C04", inp, "inproc", r)
			if !placed {
				return
			}
			e.Eval("no-mixture-after-cancel|inproc", true)
			if proto.Size(resp) != 0 {
				e.Violate("inproc/unary/reply-written-after-cancelled-return", "Invoke had returned the cancellation; the handler's reply was then written into the caller's reply object: "+msgDesc(resp), nil)
			}
			return
		}
		reply := &tpb.Message{Payload: []byte(fmt.Sprintf("late-%d", i)), Count: 4242}
		full, _ := proto.Marshal(reply)
		gate, closed, arrived := make(chan struct{}), make(chan struct{}), make(chan struct{})
		body := &lateBody{data: full, gate: gate, closed: closed}
		ch := &httpgrpc.Channel{BaseURL: mustURL("http://late.test/"), Transport: rtFunc(func(rq *http.Request) (*http.Response, error) {
			h := http.Header{}
			h.Set("Content-Type", httpgrpc.UnaryRpcContentType_V1)
			close(arrived)
			return &http.Response{StatusCode: 200, Header: h, Body: body, ContentLength: int64(len(full)), Request: rq, ProtoMajor: 1, ProtoMinor: 1}, nil
		})}
		ctx, cancel := context.WithCancel(context.Background())
		defer cancel()
		resp := new(tpb.Message)
		res := make(chan error, 1)
		go func() { res <- ch.Invoke(ctx, Unary.Method(), &tpb.Message{}, resp) }()
		select {
		case <-arrived:
		case <-time.After(watchdog):
			e.Inconclusive("C04 no-mixture-after-cancel: round trip not reached")
			close(gate)
			return
		}
		cancel()
		var ierr error
		select {
		case ierr = <-res:
		case <-time.After(watchdog):
			e.Inconclusive("C04 no-mixture-after-cancel: Invoke did not return after cancel")
			close(gate)
			return
		}
		resp.Reset()
		resp.Payload = []byte("the caller's next call")
		close(gate)
		select {
		case <-closed:
		case <-time.After(2 * time.Second):
		}
		time.Sleep(2 * time.Millisecond)
		e.Eval("no-mixture-after-cancel|http", true)
		if ierr != nil && (string(resp.Payload) != "the caller's next call" || resp.Count != 0) {
			e.Violate("http/unary/reply-written-after-cancelled-return", fmt.Sprintf("Invoke had returned %v; when the reply body arrived afterwards it was decoded into the caller's reply object, which now reads {%s}", ierr, msgDesc(resp)), nil)
		}
	})
}

// runC04LateHalfClose: a server-streaming call over HTTP whose client has sent its one request and not yet
// closed its send side when it cancels; the handler is waiting on its context. The handler's context ends.
func runC04LateHalfClose(e *core.Env) {
	htt := NewHTTPServer(&Service{}, carrierOpt{})
	defer htt.Close()
	seen := 0
	e.Cases("single-request-late-half-close", e.N(10, 80), func(i int, r *rand.Rand) {
		if seen >= 2 {
			return // (every further case would cost the same 15 s wait for the same verdict)
		}
		mode := pick(r, "cancel", "deadline")
		sc := &Script{Kind: ServerStream}
		sc.Sender = []Op{{Op: "send", Msg: &tpb.Message{Payload: []byte(fmt.Sprintf("late-close-%d", i))}}, {Op: "gate", Gate: "never"}}
		sc.Receiver = []Op{{Op: "recv"}, {Op: "recv"}}
		sc.Handler = []Op{{Op: "recv"}, {Op: "signal", Gate: "handler-waiting"}, {Op: "waitctx"}}
		run := htt.Svc.NewRun(sc, htt.Name)
		defer htt.Svc.Forget(run)
		vd := newVD()
		var parent context.Context = vd
		var end context.CancelFunc = vd.Fire
		if mode == "cancel" {
			parent, end = context.WithCancel(context.Background())
		}
		done := make(chan struct{})
		go func() {
			run.Exec(htt.CC, parent, 60*time.Second)
			close(done)
		}()
		// the handler has its request (or has been refused it) and waits; if it cannot get there while the
		// client's send side is open, the context is ended anyway and the handler is judged all the same
		select {
		case <-run.gate("handler-waiting"):
		case <-time.After(300 * time.Millisecond):
		}
		end()
		fin := false
		select {
		case <-run.handlerDone:
			fin = true
		case <-time.After(15 * time.Second):
		}
		e.Eval("single-request-late-half-close|"+mode, true)
		if !fin && run.hStarted.Load() > 0 {
			seen++
			e.Violate("http-server/stream/handler-ctx-not-cancelled/late-half-close", fmt.Sprintf("the caller's context ended (%s) before the client had closed its send side; the server-streaming handler, waiting on its context, was still waiting 15 s later", mode), witness(run))
		}
		end()
		run.Cancel()
		run.ReleaseAll()
		select {
		case <-done:
		case <-time.After(20 * time.Second):
		}
	})
}

func runC04(e *core.Env, nScripts, maxHooks int) {
	curEnv = e
	runC04Extra(e)
	// (runs last: handlers it finds stuck stay stuck and would be in the way of the phases that look at goroutines)
	defer runC04LateHalfClose(e)
	runC04Descheduled(e)
	runC04Credentials(e)
	runC04NoMixture(e)
	inp := NewInproc(&Service{}, carrierOpt{})
	htt := NewHTTPServer(&Service{}, carrierOpt{})
	defer inp.Close()
	defer htt.Close()
	carriers := []*Carrier{inp, htt}
	modes := []string{"cancel", "deadline"}
	hmodes := []string{"ignore", "honour", "ctxerr"}
	e.Cases("placement", nScripts, func(i int, r *rand.Rand) {
		c := carriers[i%2]
		kind := Kind((i / 2) % 4)
		hmode := hmodes[(i/8)%3]
		seed := r.Int63()
		mk := func(gateAt int) *Script {
			return genCancelScript(rand.New(rand.NewSource(seed)), kind, c.HTTP, hmode, gateAt)
		}
		base := mk(-1)
		if hmode == "ctxerr" {
			base = mk(len(base.Handler))
		}
		judge := func(res placeResult, sc *Script, mode string, pl placement, ptName string) {
			cell := fmt.Sprintf("%s|%s|%s|%s|%s:%s", c.Name, kind, hmode, mode, pl.kind, ptName)
			e.Eval(cell, res.reached)
			e.Count("placements", 1)
			if res.reached {
				e.Count("placements_reached", 1)
				e.Count("point."+ptName, 1)
			}
			w := func() map[string]any {
				m := witness(res.run)
				m["end_mode"], m["placement"], m["point"], m["hook_hits"], m["handler_mode"] = mode, pl, ptName, res.hits, hmode
				if res.dump != "" {
					m["goroutines"] = trunc(res.dump, 20000)
				}
				return m
			}
			sigp := fmt.Sprintf("%s/%s/", c.Name, kindClass(kind))
			if !res.finished {
				if res.stuck {
					e.Violate(sigp+"not-prompt/"+pl.kind, fmt.Sprintf("[%s] after the context ended (%s) at %s an operation never returned: all goroutines parked", cell, mode, ptName), w())
				} else {
					e.Inconclusive("C04 %s: watchdog without a stable park", cell)
				}
				return
			}
			if !res.reached {
				return
			}
			for _, v := range cancelOracle(res.run, mode, res.tEnd, c) {
				e.Violate(sigp+v.sig, fmt.Sprintf("[%s] %s", cell, v.msg), w())
			}
			if pl.kind == "gate" {
				if !res.prompt {
					e.Violate(sigp+"not-prompt/gate", fmt.Sprintf("[%s] client operations did not return while the handler was still parked", cell), w())
				}
				need := res.needCtx
				if need && !res.ctxDone {
					e.Violate(sigp+"handler-ctx-not-cancelled", fmt.Sprintf("[%s] the handler's context did not end after the caller's did", cell), w())
				}
			}
			// a handler that returns its context error must be seen with the matching code
			if hmode == "ctxerr" {
				out := res.run.ClientOutcome()
				want := codes.Canceled
				if mode == "deadline" {
					want = codes.DeadlineExceeded
				}
				if out.Seen && (out.OK || status.Code(out.Err) != want) {
					if _, isSt := status.FromError(out.Err); isSt || out.OK {
						e.Violate(sigp+"ctxerr-wrong-code", fmt.Sprintf("[%s] handler returned its context error; client saw %v, want %v", cell, out.Err, want), w())
					}
				}
			}
		}
		for _, mode := range modes {
			// call start
			sc := base
			judge(runPlaced(c, sc, mode, placement{"before", 0}), sc, mode, placement{"before", 0}, "before-call")
			// dry run to learn the hook hits (handler gates auto-open)
			dry := runPlaced(c, base, mode, placement{"none", 0})
			if !dry.finished {
				e.Inconclusive("C04 dry run did not finish: %s %s", c.Name, base.Shape())
				return
			}
			hits := dry.hits
			nh := len(hits)
			step := 1
			if nh > maxHooks {
				step = (nh + maxHooks - 1) / maxHooks
			}
			reps := 1
			if c.Inproc {
				reps = 4 // what follows a placement is still a race between ready select cases: sample it
			}
			for k := 0; k < nh; k += step {
				for rep := 0; rep < reps; rep++ {
					pl := placement{"hook", k}
					res := runPlaced(c, base, mode, pl)
					name := res.parkedAt
					if name == "" {
						name = hits[k]
					}
					judge(res, base, mode, pl, name)
				}
			}
			// handler parked at each position of its script
			if hmode != "ctxerr" {
				plain := mk(-1)
				for g := 0; g <= len(plain.Handler); g++ {
					sc := mk(g)
					pl := placement{"gate", g}
					name := "handler-op-" + fmt.Sprint(g)
					judge(runPlaced(c, sc, mode, pl), sc, mode, pl, name)
				}
			} else {
				pl := placement{"gate", 0}
				judge(runPlaced(c, base, mode, pl), base, mode, pl, "handler-waits-for-ctx")
			}
		}
		if i < 2 {
			e.Sample(map[string]any{"carrier": c.Name, "kind": kind.String(), "handler_mode": hmode, "script": base})
		}
	})
}

// runC04NoMetadata: a caller whose context has a deadline and no outgoing metadata at all, calling a streaming
// method whose handler neither reads nor writes but waits for its context. The handler's context ends with the
// caller's deadline (over HTTP the request body is still open then, so nothing but the transported deadline can
// tell the server). The handler waits 8 s (more than thirty times the deadline) before it gives up.
func runC04NoMetadata(e *core.Env) {
	type probe struct {
		started     chan struct{}
		ended       chan bool
		hadDeadline bool
	}
	var cur atomic.Pointer[probe]
	desc := &grpc.ServiceDesc{ServiceName: "c04.Bare", HandlerType: (*interface{})(nil), Streams: []grpc.StreamDesc{{StreamName: "S", ClientStreams: true, ServerStreams: true,
		Handler: func(_ interface{}, ss grpc.ServerStream) error {
			p := cur.Load()
			_, p.hadDeadline = ss.Context().Deadline()
			close(p.started)
			select {
			case <-ss.Context().Done():
				p.ended <- true
			case <-time.After(8 * time.Second):
				p.ended <- false
			}
			return nil
		}}}}
	inp := &inprocgrpc.Channel{}
	inp.RegisterService(desc, struct{}{})
	srv := httpgrpc.NewServer()
	srv.RegisterService(desc, struct{}{})
	hc := httpCarrier("http-bare", nil, srv, "/", false, false)
	defer hc.Close()
	chans := []struct {
		name string
		cc   grpc.ClientConnInterface
	}{{"inproc", inp}, {"http-server", hc.CC}}
	e.Cases("no-metadata-deadline", e.N(8, 60), func(i int, r *rand.Rand) {
		c := chans[i%2]
		p := &probe{started: make(chan struct{}), ended: make(chan bool, 1)}
		cur.Store(p)
		ctx, cancel := context.WithTimeout(context.Background(), time.Duration(150+r.Intn(100))*time.Millisecond)
		defer cancel()
		st, err := c.cc.NewStream(ctx, &desc.Streams[0], "/c04.Bare/S")
		var rerr error
		if err == nil {
			rerr = st.RecvMsg(new(tpb.Message))
		}
		select {
		case <-p.started:
		case <-time.After(watchdog):
			e.Inconclusive("C04 no-metadata-deadline %s: handler never started (NewStream: %v, RecvMsg: %v)", c.name, err, rerr)
			return
		}
		ended := <-p.ended
		e.Eval("no-metadata-deadline|"+c.name, true)
		w := map[string]any{"carrier": c.name, "newstream": fmt.Sprint(err), "recv": fmt.Sprint(rerr), "handler_had_deadline": p.hadDeadline}
		if !ended {
			e.Violate(c.name+"/stream/handler-ctx-not-cancelled/no-metadata", fmt.Sprintf("the caller's context (a deadline, no outgoing metadata) ended; the handler's context was still alive 8 s later (it had a deadline: %v)", p.hadDeadline), w)
		}
		if err == nil && status.Code(rerr) != codes.DeadlineExceeded {
			e.Violate(c.name+"/stream/no-metadata/wrong-code", fmt.Sprintf("the pending receive returned %v when the deadline passed", rerr), w)
		}
	})
}
