package props

import (
	"bytes"
	"context"
	"crypto/tls"
	"fmt"
	"io"
	"log"
	"math/rand"
	"net"
	"net/http"
	"net/http/httptest"
	"net/url"
	"os"
	"path/filepath"
	"sync"
	"sync/atomic"
	"time"

	"github.com/fullstorydev/grpchan"
	"github.com/fullstorydev/grpchan/httpgrpc"
	"github.com/fullstorydev/grpchan/inprocgrpc"
	"google.golang.org/grpc"
	"google.golang.org/grpc/credentials/insecure"
	"google.golang.org/grpc/grpclog"
	"google.golang.org/grpc/test/bufconn"
)

func init() {
	grpclog.SetLoggerV2(grpclog.NewLoggerV2(io.Discard, io.Discard, io.Discard))
}

func timeUnix(r *rand.Rand) time.Time {
	return time.Unix(int64(r.Intn(2000000000)), int64(r.Intn(1000000000))).UTC()
}

// Carrier is one way of connecting a client to the scripted service.
type Carrier struct {
	Name   string
	CC     grpc.ClientConnInterface
	HTTP   bool // half-duplex rules apply
	Ref    bool // the standard gRPC transport (reference)
	Inproc bool
	Svc    *Service
	close  []func()
	// for HTTP carriers
	URL       *url.URL
	Transport *http.Transport
	ReqCount  *atomic.Int64 // HTTP requests that reached the server
	RemoteOf  *sync.Map     // run id -> remote address of the connection its request arrived on
	Inner     *inprocgrpc.Channel
	// ReqBodyWrap, if set, wraps every request body before the library's handler sees it (set before use)
	ReqBodyWrap func(io.ReadCloser) io.ReadCloser
}

// pieceReader hands out at most n bytes per Read (a body that arrives in small pieces: slow links, chunked
// proxies); it never returns 0 bytes with a nil error.
type pieceReader struct {
	rc io.ReadCloser
	n  int
}

func (p *pieceReader) Read(b []byte) (int, error) {
	if len(b) > p.n {
		b = b[:p.n]
	}
	return p.rc.Read(b)
}
func (p *pieceReader) Close() error { return p.rc.Close() }

type pieceRT struct {
	rt http.RoundTripper
	n  int
}

func (p pieceRT) RoundTrip(r *http.Request) (*http.Response, error) {
	resp, err := p.rt.RoundTrip(r)
	if resp != nil && resp.Body != nil {
		resp.Body = &pieceReader{resp.Body, p.n}
	}
	return resp, err
}

// chunkRT sends every request body with an undeclared length (chunked transfer encoding), as clients and
// proxies that stream their uploads do.
type chunkRT struct{ rt http.RoundTripper }

func (c chunkRT) RoundTrip(r *http.Request) (*http.Response, error) {
	r2 := r.Clone(r.Context())
	if r.Body != nil {
		r2.Body = struct{ io.ReadCloser }{r.Body}
		r2.ContentLength = -1
		r2.GetBody = nil
	}
	return c.rt.RoundTrip(r2)
}

// Chunked makes the carrier's client send its request bodies chunked.
func (c *Carrier) Chunked() *Carrier {
	c.Name += "-chunked"
	c.CC = &httpgrpc.Channel{Transport: chunkRT{c.Transport}, BaseURL: c.URL}
	return c
}

// prefaceCutReader passes the first frame of a streaming request body through, then the 4-byte size preface of
// the second frame, and then ends cleanly (io.EOF): the connection went away right there.
type prefaceCutReader struct {
	rc   io.ReadCloser
	left int // bytes still to pass through; -1 = not yet known
	hdr  []byte
}

func (p *prefaceCutReader) Read(b []byte) (int, error) {
	if p.left == 0 {
		return 0, io.EOF
	}
	if p.left < 0 {
		// read the first preface to learn the first frame's length
		for len(p.hdr) < 4 {
			t := make([]byte, 4-len(p.hdr))
			n, err := p.rc.Read(t)
			p.hdr = append(p.hdr, t[:n]...)
			if err != nil && len(p.hdr) < 4 {
				return 0, err
			}
		}
		sz := int(int32(uint32(p.hdr[0])<<24 | uint32(p.hdr[1])<<16 | uint32(p.hdr[2])<<8 | uint32(p.hdr[3])))
		if sz < 0 {
			sz = 0
		}
		p.left = sz + 4 // rest of frame one, preface of frame two
		n := copy(b, p.hdr)
		if n < 4 {
			p.left += 4 - n // (tiny buffers: hand the rest of the header out with the data)
			p.rc = io.NopCloser(io.MultiReader(bytes.NewReader(p.hdr[n:]), p.rc))
		}
		return n, nil
	}
	if len(b) > p.left {
		b = b[:p.left]
	}
	n, err := p.rc.Read(b)
	p.left -= n
	return n, err
}
func (p *prefaceCutReader) Close() error { return p.rc.Close() }

// CutAfterSecondPreface makes the server see every streaming request body end cleanly right after the size
// preface of its second frame.
func (c *Carrier) CutAfterSecondPreface() *Carrier {
	c.Name += "-cut-after-2nd-preface"
	c.ReqBodyWrap = func(b io.ReadCloser) io.ReadCloser { return &prefaceCutReader{rc: b, left: -1} }
	return c
}

// InPieces makes both directions of an HTTP carrier deliver their bodies at most n bytes per Read.
func (c *Carrier) InPieces(n int) *Carrier {
	c.Name += fmt.Sprintf("-pieces%d", n)
	c.ReqBodyWrap = func(b io.ReadCloser) io.ReadCloser { return &pieceReader{b, n} }
	c.CC = &httpgrpc.Channel{Transport: pieceRT{c.Transport, n}, BaseURL: c.URL}
	return c
}

func (c *Carrier) Close() {
	for i := len(c.close) - 1; i >= 0; i-- {
		c.close[i]()
	}
}

type carrierOpt struct {
	cloner    inprocgrpc.Cloner
	unaryInt  grpc.UnaryServerInterceptor
	streamInt grpc.StreamServerInterceptor
	register  func(reg grpc.ServiceRegistrar) // extra registrations
	basePath  string
	tls       bool
	unix      bool // serve on a unix-domain socket instead of loopback TCP
	// skipVerify: the TLS client does not verify the server's certificate chain (self-signed or pinned
	// certificates): still a TLS connection
	skipVerify bool
	ipv6       bool // listen on the IPv6 loopback address (the base URL then holds an IPv6 literal)
	// tlsConfigured: the client's *http.Transport carries a TLS configuration although the base URL is http://
	// (one transport shared between https and http back ends)
	tlsConfigured bool
	// decorate registers the scripted service through grpchan.WithInterceptor with pass-through interceptors
	decorate bool
}

func passThroughUnary(ctx context.Context, req interface{}, _ *grpc.UnaryServerInfo, h grpc.UnaryHandler) (interface{}, error) {
	return h(ctx, req)
}
func passThroughStream(srv interface{}, ss grpc.ServerStream, _ *grpc.StreamServerInfo, h grpc.StreamHandler) error {
	return h(srv, ss)
}

func registerScripted(reg grpc.ServiceRegistrar, svc *Service, o carrierOpt) {
	if o.decorate {
		reg = grpchan.WithInterceptor(reg, passThroughUnary, passThroughStream)
	}
	reg.RegisterService(&ScriptedDesc, svc)
}

func NewInproc(svc *Service, o carrierOpt) *Carrier {
	ch := &inprocgrpc.Channel{}
	if o.cloner != nil {
		ch.WithCloner(o.cloner)
	}
	if o.unaryInt != nil {
		ch.WithServerUnaryInterceptor(o.unaryInt)
	}
	if o.streamInt != nil {
		ch.WithServerStreamInterceptor(o.streamInt)
	}
	registerScripted(ch, svc, o)
	if o.register != nil {
		o.register(ch)
	}
	return &Carrier{Name: "inproc", CC: ch, Inproc: true, Svc: svc, Inner: ch}
}

func newHTTPTransport() *http.Transport {
	return &http.Transport{
		MaxIdleConns:        64,
		MaxIdleConnsPerHost: 64,
		IdleConnTimeout:     30 * time.Second,
		DisableCompression:  true,
	}
}

// NewHTTPServer: httpgrpc.Channel -> real loopback TCP -> httpgrpc.Server.
func NewHTTPServer(svc *Service, o carrierOpt) *Carrier {
	base := o.basePath
	if base == "" {
		base = "/"
	}
	var sopts []httpgrpc.ServerOption
	sopts = append(sopts, httpgrpc.WithBasePath(base))
	if o.unaryInt != nil {
		sopts = append(sopts, httpgrpc.WithServerUnaryInterceptor(o.unaryInt))
	}
	if o.streamInt != nil {
		sopts = append(sopts, httpgrpc.WithServerStreamInterceptor(o.streamInt))
	}
	s := httpgrpc.NewServer(sopts...)
	registerScripted(s, svc, o)
	if o.register != nil {
		o.register(s)
	}
	return httpCarrier("http-server", svc, s, base, o.tls, o.unix, o.skipVerify, o.ipv6, o.tlsConfigured)
}

// NewHTTPMux: the bulk-registration helper on a ServeMux.
func NewHTTPMux(svc *Service, o carrierOpt) *Carrier {
	base := o.basePath
	if base == "" {
		base = "/"
	}
	reg := grpchan.HandlerMap{}
	registerScripted(reg, svc, o)
	if o.register != nil {
		o.register(reg)
	}
	mux := http.NewServeMux()
	httpgrpc.HandleServices(mux.HandleFunc, base, reg, o.unaryInt, o.streamInt)
	return httpCarrier("http-mux", svc, mux, base, o.tls, o.unix, o.skipVerify, o.ipv6, o.tlsConfigured)
}

func httpCarrier(name string, svc *Service, h http.Handler, base string, useTLS, unix bool, skipVerify ...bool) *Carrier {
	var ts *httptest.Server
	tr := newHTTPTransport()
	reqCount := new(atomic.Int64)
	remoteOf := new(sync.Map)
	var self atomic.Pointer[Carrier]
	ts = httptest.NewUnstartedServer(http.HandlerFunc(func(w http.ResponseWriter, r *http.Request) {
		reqCount.Add(1)
		if id := r.Header.Get("X-Verif-Run"); id != "" {
			remoteOf.Store(id, r.RemoteAddr)
		}
		if c := self.Load(); c != nil && c.ReqBodyWrap != nil {
			r.Body = c.ReqBodyWrap(r.Body)
		}
		h.ServeHTTP(w, r)
	}))
	ts.Config.ErrorLog = log.New(io.Discard, "", 0)
	if len(skipVerify) > 1 && skipVerify[1] {
		l, err := net.Listen("tcp6", "[::1]:0")
		if err != nil {
			return nil // no IPv6 loopback here
		}
		ts.Listener.Close()
		ts.Listener = l
		name += "-ipv6"
	}
	sockDir := ""
	if unix {
		d, err := os.MkdirTemp("", "vsock")
		if err != nil {
			panic(err)
		}
		sockDir = d
		l, err := net.Listen("unix", filepath.Join(d, "s"))
		if err != nil {
			panic(err)
		}
		ts.Listener.Close()
		ts.Listener = l
		name += "-unix"
	}
	if useTLS {
		ts.StartTLS()
		tr = ts.Client().Transport.(*http.Transport)
		if len(skipVerify) > 0 && skipVerify[0] {
			tr = tr.Clone()
			tr.TLSClientConfig = &tls.Config{InsecureSkipVerify: true}
			name += "-skipverify"
		}
	} else {
		ts.Start()
	}
	u, _ := url.Parse(ts.URL)
	if unix {
		sock := filepath.Join(sockDir, "s")
		tr.DialContext = func(ctx context.Context, _, _ string) (net.Conn, error) {
			return (&net.Dialer{}).DialContext(ctx, "unix", sock)
		}
		scheme := "http"
		if useTLS {
			scheme = "https"
		}
		u = &url.URL{Scheme: scheme, Host: "127.0.0.1"}
	}
	u.Path = base
	if len(skipVerify) > 2 && skipVerify[2] && !useTLS {
		tr.TLSClientConfig = &tls.Config{}
		name += "-tlsconfigured"
	}
	c := &Carrier{Name: name, HTTP: true, Svc: svc, URL: u, Transport: tr, ReqCount: reqCount, RemoteOf: remoteOf}
	c.CC = &httpgrpc.Channel{Transport: tr, BaseURL: u}
	self.Store(c)
	c.close = append(c.close, func() {
		tr.CloseIdleConnections()
		ts.CloseClientConnections()
		ts.Close()
		if sockDir != "" {
			os.RemoveAll(sockDir)
		}
	})
	return c
}

// NewRef: the standard transport over an in-memory listener.
func NewRef(svc *Service, o carrierOpt) *Carrier {
	lis := bufconn.Listen(1 << 20)
	var sopts []grpc.ServerOption
	if o.unaryInt != nil {
		sopts = append(sopts, grpc.UnaryInterceptor(o.unaryInt))
	}
	if o.streamInt != nil {
		sopts = append(sopts, grpc.StreamInterceptor(o.streamInt))
	}
	sopts = append(sopts, grpc.MaxRecvMsgSize(1<<30), grpc.MaxSendMsgSize(1<<30))
	gs := grpc.NewServer(sopts...)
	gs.RegisterService(&ScriptedDesc, svc)
	if o.register != nil {
		o.register(gs)
	}
	go gs.Serve(lis)
	cc, err := grpc.Dial("bufnet", grpc.WithContextDialer(func(ctx context.Context, _ string) (net.Conn, error) { return lis.DialContext(ctx) }),
		grpc.WithTransportCredentials(insecure.NewCredentials()),
		grpc.WithDefaultCallOptions(grpc.MaxCallRecvMsgSize(1<<30), grpc.MaxCallSendMsgSize(1<<30)))
	if err != nil {
		panic(err)
	}
	c := &Carrier{Name: "grpc-ref", CC: cc, Ref: true, Svc: svc}
	c.close = append(c.close, func() { cc.Close(); gs.Stop(); lis.Close() })
	return c
}
