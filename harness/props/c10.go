package props

import (
	"context"
	"fmt"
	"math/rand"
	"reflect"
	"runtime"
	"strings"
	"time"
	"unsafe"

	"github.com/fullstorydev/grpchan/inprocgrpc"
	"google.golang.org/grpc"
	"google.golang.org/grpc/metadata"
	"google.golang.org/grpc/peer"

	"verifharness/core"
)

func init() { core.Register("C10", checkC10) }

// ctxChainKeys walks the chain of standard-library contexts and returns every
// key stored with context.WithValue (by gRPC or by the application).
func ctxChainKeys(ctx context.Context) []interface{} {
	var keys []interface{}
	for depth := 0; ctx != nil && depth < 200; depth++ {
		rv := reflect.ValueOf(ctx)
		t := rv.Type().String()
		switch {
		case t == "*context.valueCtx":
			el := rv.Elem()
			kf := el.FieldByName("key")
			kf = reflect.NewAt(kf.Type(), unsafe.Pointer(kf.UnsafeAddr())).Elem()
			keys = append(keys, kf.Interface())
			ctx, _ = el.FieldByName("Context").Interface().(context.Context)
		case t == "*context.cancelCtx" || t == "*context.withoutCancelCtx" || t == "*context.afterFuncCtx":
			f := rv.Elem().FieldByName("Context")
			if !f.IsValid() {
				f = rv.Elem().FieldByName("cancelCtx").FieldByName("Context")
			}
			if !f.IsValid() || !f.CanInterface() {
				if f.IsValid() {
					f = reflect.NewAt(f.Type(), unsafe.Pointer(f.UnsafeAddr())).Elem()
				} else {
					return keys
				}
			}
			ctx, _ = f.Interface().(context.Context)
		case t == "*context.timerCtx":
			f := rv.Elem().FieldByName("cancelCtx").FieldByName("Context")
			if !f.CanInterface() {
				f = reflect.NewAt(f.Type(), unsafe.Pointer(f.UnsafeAddr())).Elem()
			}
			ctx, _ = f.Interface().(context.Context)
		default:
			// custom wrappers that embed a Context (the harness' own types)
			if rv.Kind() == reflect.Struct {
				if f := rv.FieldByName("Context"); f.IsValid() && f.CanInterface() {
					ctx, _ = f.Interface().(context.Context)
					continue
				}
			}
			return keys
		}
	}
	return keys
}

type keyA struct{}
type keyB struct{ n int }
type keyS string

var ptrKey = new(int)

// addRandomValues decorates ctx with 0..n values under keys of many types.
func addRandomValues(r *rand.Rand, ctx context.Context, n int) context.Context {
	k := r.Intn(n + 1)
	for i := 0; i < k; i++ {
		switch r.Intn(7) {
		case 0:
			ctx = context.WithValue(ctx, keyA{}, fmt.Sprintf("vA%d", i))
		case 1:
			ctx = context.WithValue(ctx, keyB{r.Intn(3)}, i)
		case 2:
			ctx = context.WithValue(ctx, keyS("user"), "alice")
		case 3:
			ctx = context.WithValue(ctx, ptrKey, &i)
		case 4:
			ctx = context.WithValue(ctx, "plain-string-key", []byte("secret"))
		case 5:
			ctx = context.WithValue(ctx, r.Intn(5), "int-key")
		default:
			ctx = context.WithValue(ctx, [2]string{"arr", fmt.Sprint(r.Intn(3))}, struct{}{})
		}
	}
	return ctx
}

// reattached: key types the library legitimately re-creates on the server side.
func reattachedKey(k interface{}) bool {
	t := fmt.Sprintf("%T", k)
	switch t {
	case "metadata.mdIncomingKey", "peer.peerKey", "grpc.streamKey":
		return true
	}
	return false
}

type c10probe struct {
	problems [][2]string
	ran      bool
}

// probeCtx runs inside a handler reached through the in-process channel.
func probeCtx(p *c10probe, hctx, callerCtx context.Context, wantMD metadata.MD, method string, outerSTS grpc.ServerTransportStream, outerPeer *peer.Peer) {
	p.ran = true
	add := func(sig, msg string) { p.problems = append(p.problems, [2]string{sig, msg}) }
	for _, k := range ctxChainKeys(callerCtx) {
		if reattachedKey(k) {
			continue
		}
		if fmt.Sprintf("%T", k) == "metadata.mdOutgoingKey" {
			continue // judged through the accessor below
		}
		if v := hctx.Value(k); v != nil {
			if _, isCtx := v.(context.Context); isCtx && fmt.Sprintf("%T", k) == "*string" {
				continue // the sanctioned client-context accessor's key
			}
			add("value-leak", fmt.Sprintf("handler context exposes caller value under key %T(%v): %v", k, k, v))
		}
	}
	if md, ok := metadata.FromOutgoingContext(hctx); ok && len(md) > 0 {
		add("outgoing-md-leak", fmt.Sprintf("caller's outgoing metadata is visible as OUTGOING metadata in the handler: %v", md))
	}
	inc, _ := metadata.FromIncomingContext(hctx)
	want := wantMD.Copy()
	for k := range inc {
		if _, ok := want[k]; !ok {
			add("incoming-md-extra", fmt.Sprintf("handler's incoming metadata has key %q = %q that the caller did not send (leak from an enclosing call?)", k, inc[k]))
		}
	}
	if ok, why := mdContains(inc, want); !ok {
		add("incoming-md-missing", "handler's incoming metadata lacks caller pairs: "+why)
	}
	pr, ok := peer.FromContext(hctx)
	if !ok || pr == nil || pr.Addr == nil {
		add("peer-missing", "handler context has no peer")
	} else if outerPeer != nil && pr.Addr == outerPeer.Addr {
		add("peer-leak", "handler sees the enclosing call's peer")
	}
	sts := grpc.ServerTransportStreamFromContext(hctx)
	if sts == nil {
		add("sts-missing", "handler context has no server transport stream")
	} else {
		if sts.Method() != method {
			add("sts-wrong", fmt.Sprintf("server transport stream reports method %q, called %q", sts.Method(), method))
		}
		if outerSTS != nil && sts == outerSTS {
			add("sts-leak", "handler sees the enclosing call's transport stream")
		}
	}
	cd, cok := callerCtx.Deadline()
	hd, hok := hctx.Deadline()
	switch {
	case cok && !hok:
		add("deadline-lost", "caller deadline not visible in handler")
	case !cok && hok:
		add("deadline-added", "handler has a deadline the caller did not set")
	case cok && (hd.After(cd) || hd.Before(cd.Add(-time.Millisecond))):
		add("deadline-changed", fmt.Sprintf("handler deadline %v differs from caller's %v", hd, cd))
	}
	cc := inprocgrpc.ClientContext(hctx)
	if cc == nil {
		add("clientctx-missing", "ClientContext(handler ctx) is nil")
	} else {
		for _, k := range ctxChainKeys(callerCtx) {
			if fmt.Sprintf("%T", k) == "metadata.mdOutgoingKey" {
				// the channel may have added per-RPC credential metadata to what it passes on
				callerOut, _ := metadata.FromOutgoingContext(callerCtx)
				ccOut, _ := metadata.FromOutgoingContext(cc)
				for mk, mv := range callerOut {
					got := ccOut[mk]
					if len(got) < len(mv) || strings.Join(got[:len(mv)], "\x00") != strings.Join(mv, "\x00") {
						add("clientctx-wrong", fmt.Sprintf("ClientContext(...) lost outgoing metadata of the caller: key %q: got %q want (at least) %q", mk, got, mv))
					}
				}
				continue
			}
			if !reflect.DeepEqual(cc.Value(k), callerCtx.Value(k)) {
				add("clientctx-wrong", fmt.Sprintf("ClientContext(...).Value(%T) differs from the caller's", k))
			}
		}
		if d2, ok2 := cc.Deadline(); ok2 != cok || (ok2 && !d2.Equal(cd)) {
			add("clientctx-wrong", "ClientContext(...) has another deadline than the caller's context")
		}
	}
}

func checkC10(e *core.Env) {
	curEnv = e
	e.SetRule("in-process calls of all four kinds with caller contexts carrying 0..12 random values under keys of many types plus gRPC's own keys (outgoing metadata, an enclosing server's incoming metadata / transport stream / peer when issued from inside an in-process, real-gRPC or httpgrpc handler, nesting depth <=3), with and without channel interceptors; probes run inside the handler: Value(k) for every key found by a reflective walk of the caller's context chain, metadata/peer/transport-stream/deadline accessors, ClientContext, and metadata mutation on both sides; distinct = (host, depth, kind, interceptors, deadline, value count)")
	e.Assume("ClientContext is compared by the values/deadline it exposes, not by pointer identity (the channel may wrap the caller's context)")
	passU := func(ctx context.Context, req interface{}, info *grpc.UnaryServerInfo, h grpc.UnaryHandler) (interface{}, error) {
		return h(ctx, req)
	}
	passS := func(srv interface{}, ss grpc.ServerStream, info *grpc.StreamServerInfo, h grpc.StreamHandler) error {
		return h(srv, ss)
	}
	hosts := []string{"top", "inproc", "grpc-ref", "http"}
	n := e.N(800, 10000)
	e.Cases("ctx", n, func(i int, r *rand.Rand) {
		host := hosts[i%len(hosts)]
		withInt := r.Intn(2) == 0
		opt := carrierOpt{}
		if withInt {
			opt.unaryInt, opt.streamInt = passU, passS
		}
		inner := NewInproc(&Service{}, opt)
		defer inner.Close()
		kind := Kind(r.Intn(4))
		depth := 0
		var probe c10probe

		// doInner performs the probed in-process call with parent as caller context.
		var doInner func(parent context.Context, outerSTS grpc.ServerTransportStream, outerPeer *peer.Peer, level int)
		doInner = func(parent context.Context, outerSTS grpc.ServerTransportStream, outerPeer *peer.Peer, level int) {
			caller := addRandomValues(r, parent, 12)
			var cancel context.CancelFunc = func() {}
			if r.Intn(3) == 0 {
				caller, cancel = context.WithTimeout(caller, time.Duration(1+r.Intn(100))*time.Minute)
			}
			defer cancel()
			sc := genDeliveryScript(r, kind, false, false)
			sc.ReqMD = genMD(r, 4, false)
			if r.Intn(6) == 0 {
				sc.ReqMD = nil
			}
			if sc.ReqMD != nil && r.Intn(3) == 0 {
				// keys that begin like the protocol's own but are not reserved (a real transport delivers them)
				k := pick(r, "grpc-trace-bin", "grpc-tags-bin", "grpc-previous-rpc-attempts")
				sc.ReqMD[k] = []string{pick(r, "1", "\x00\x01\x02", "abc")}
			}
			run := inner.Svc.NewRun(sc, "inproc")
			wantMD := metadata.MD{}
			for k, v := range sc.ReqMD {
				wantMD[k] = append([]string(nil), v...)
			}
			wantMD[runKey] = []string{run.ID}
			if r.Intn(4) == 0 {
				// per-RPC credentials contribute metadata; the caller's own values must still all arrive
				sc.ReqMD = mdMerge(sc.ReqMD, metadata.MD{"authorization": {"caller-token"}})
				wantMD["authorization"] = []string{"caller-token", "cred-token"}
				wantMD["cred-only"] = []string{"c"}
				credMD := map[string]string{"authorization": "cred-token", "cred-only": "c"}
				if r.Intn(2) == 0 {
					// credentials are free to spell their keys with capitals (metadata keys are case-insensitive)
					credMD = map[string]string{"Authorization": "cred-token", "Cred-Only": "c"}
				}
				sc.ExtraOpts = []grpc.CallOption{grpc.PerRPCCredentials(&testCreds{md: credMD})}
			}
			var keptCC context.Context
			run.OnHandler = func(hctx context.Context, rr *Run, st grpc.ServerStream) {
				probeCtx(&probe, hctx, rr.Ctx, wantMD, kind.Method(), outerSTS, outerPeer)
				// server-side code may keep the caller's context for work that outlives the handler
				keptCC = inprocgrpc.ClientContext(hctx)
				// handler-side mutation of the metadata must not reach the caller
				if md, ok := metadata.FromIncomingContext(hctx); ok {
					for k := range md {
						md[k] = []string{"clobbered-by-handler"}
					}
					md["added-by-handler"] = []string{"x"}
				}
				if level < 2 && r.Intn(3) == 0 {
					// nest one level deeper from inside this in-process handler
					depth++
					doInner(hctx, grpc.ServerTransportStreamFromContext(hctx), nil, level+1)
				}
			}
			ok, _ := run.Exec(inner.CC, caller, watchdog)
			// the context the accessor handed out is the caller's: it lives and ends with the caller's context,
			// not with the handler or the call
			if ok && keptCC != nil && run.Ctx.Err() == nil && caller.Err() == nil {
				e.Count("clientctx_lifetime_checks", 1)
				if err := keptCC.Err(); err != nil {
					probe.problems = append(probe.problems, [2]string{"clientctx-ended-early", fmt.Sprintf("the context obtained from ClientContext(...) inside the handler is over (%v) once the call has completed, although the caller's context is still alive", err)})
				}
			}
			run.Cancel()
			if ok && keptCC != nil && run.Ctx.Err() != nil && keptCC.Err() == nil {
				probe.problems = append(probe.problems, [2]string{"clientctx-cancellation-lost", "the caller's context was cancelled; the context obtained from ClientContext(...) inside the handler is not"})
			}
			inner.Svc.Forget(run)
			if !ok {
				run.ReleaseAll()
				e.Inconclusive("C10 %s: watchdog", host)
				return
			}
			// caller-side view after the handler's mutation
			if out, _ := metadata.FromOutgoingContext(run.Ctx); out != nil {
				if _, bad := out["added-by-handler"]; bad {
					probe.problems = append(probe.problems, [2]string{"md-mutation-crossed", "handler's mutation of its incoming metadata is visible in the caller's outgoing metadata"})
				}
				for k, v := range sc.ReqMD {
					if strings.Join(out[k], "|") != strings.Join(v, "|") {
						probe.problems = append(probe.problems, [2]string{"md-mutation-crossed", fmt.Sprintf("caller's outgoing metadata key %q changed to %q after the call", k, out[k])})
					}
				}
			}
		}

		switch host {
		case "top":
			doInner(context.Background(), nil, nil, 0)
		default:
			var outer *Carrier
			switch host {
			case "inproc":
				outer = NewInproc(&Service{}, carrierOpt{})
			case "grpc-ref":
				outer = NewRef(&Service{}, carrierOpt{})
			case "http":
				outer = NewHTTPServer(&Service{}, carrierOpt{})
			}
			defer outer.Close()
			osc := genDeliveryScript(r, Kind(r.Intn(4)), true, false)
			osc.ReqMD = metadata.MD{"outer-only": {"must-not-leak"}, "shared": {"outer"}}
			orun := outer.Svc.NewRun(osc, outer.Name)
			orun.OnHandler = func(octx context.Context, _ *Run, _ grpc.ServerStream) {
				depth++
				op, _ := peer.FromContext(octx)
				if host == "inproc" {
					op = nil // every in-process call legitimately reports the same in-process peer
				}
				octx = context.WithValue(octx, keyS("outer-handler-value"), "leak-me")
				doInner(octx, grpc.ServerTransportStreamFromContext(octx), op, 1)
			}
			ok, _ := orun.Exec(outer.CC, context.Background(), watchdog)
			orun.Cancel()
			if !ok {
				orun.ReleaseAll()
				e.Inconclusive("C10 outer %s: watchdog", host)
				return
			}
		}
		e.Eval(fmt.Sprintf("%s|d=%d|%s|int=%v", host, depth, kind, withInt), true)
		e.Count("probes", 1)
		if !probe.ran {
			e.Inconclusive("C10 %s: probe did not run", host)
			return
		}
		for _, p := range probe.problems {
			e.Violate(fmt.Sprintf("ctx/%s/%s", hostClass(host), p[0]), fmt.Sprintf("[host=%s depth=%d kind=%s interceptors=%v] %s", host, depth, kind, withInt, p[1]), nil)
		}
		if i < 3 {
			e.Sample(map[string]any{"host": host, "depth": depth, "kind": kind.String(), "interceptors": withInt})
		}
	})

	// caller mutates its metadata map after the call has started
	e.Cases("caller-mutation", e.N(150, 2000), func(i int, r *rand.Rand) {
		inner := NewInproc(&Service{}, carrierOpt{})
		defer inner.Close()
		kind := Kind(r.Intn(4))
		sc := genDeliveryScript(r, kind, true, false)
		sc.ReqMD = metadata.MD{"token": {"v1"}, "multi": {"a", "b"}}
		sc.NoAppendedMD = true // the caller's one map is what gets written to below
		run := inner.Svc.NewRun(sc, "inproc")
		var seen metadata.MD
		run.OnHandler = func(hctx context.Context, rr *Run, _ grpc.ServerStream) {
			rr.Release("handler-started")
			<-rr.gate("mutated")
			seen, _ = metadata.FromIncomingContext(hctx)
		}
		go func() {
			<-run.gate("handler-started")
			if run.OutMD != nil {
				run.OutMD["token"][0] = "v2"
				run.OutMD["multi"] = append(run.OutMD["multi"], "c")
				run.OutMD["extra"] = []string{"y"}
			}
			run.Release("mutated")
		}()
		ok, _ := run.Exec(inner.CC, nil, watchdog)
		run.Cancel()
		if !ok {
			run.ReleaseAll()
			e.Inconclusive("C10 caller-mutation: watchdog")
			return
		}
		e.Eval(fmt.Sprintf("caller-mutation|%s", kind), true)
		if seen == nil {
			return
		}
		if strings.Join(seen["token"], "|") != "v1" || strings.Join(seen["multi"], "|") != "a|b" || len(seen["extra"]) != 0 {
			e.Violate("ctx/md-snapshot", fmt.Sprintf("caller's later mutation of its metadata map is visible in the handler: token=%v multi=%v extra=%v", seen["token"], seen["multi"], seen["extra"]), nil)
		}
	})
	checkC10OpenMutation(e)

	// the caller's cancellation and deadline reach the handler's context
	inpc := NewInproc(&Service{}, carrierOpt{})
	defer inpc.Close()
	e.Cases("cancellation", e.N(24, 240), func(i int, r *rand.Rand) {
		kind := Kind(i % 4)
		mode := pick(r, "cancel", "deadline")
		sc := genCancelScript(r, kind, false, "honour", 1<<20)
		res := runPlaced(inpc, sc, mode, placement{"gate", 0})
		if !res.finished || !res.reached {
			e.Inconclusive("C10 cancellation: placement not reached (%s %s)", kind, mode)
			return
		}
		e.Eval(fmt.Sprintf("cancellation|%s|%s", kind, mode), true)
		if !res.run.HandlerCtxDone.Load() {
			e.Violate("ctx/cancellation-not-propagated/"+mode, fmt.Sprintf("the caller's context ended (%s) while the %s handler was waiting on its own context, which never ended", mode, kind), witness(res.run))
		}
	})
}

// checkC10OpenMutation: the handler's metadata is a snapshot taken while NewStream runs; what the caller
// does to its map the moment NewStream has returned (before the server side got to run) must not show.
func checkC10OpenMutation(e *core.Env) {
	prev := runtime.GOMAXPROCS(1) // the new server goroutine cannot run before the caller yields
	defer runtime.GOMAXPROCS(prev)
	e.Cases("caller-mutation-at-open", e.N(150, 2000), func(i int, r *rand.Rand) {
		inner := NewInproc(&Service{}, carrierOpt{})
		defer inner.Close()
		kind := Kind(1 + r.Intn(3))
		sc := genDeliveryScript(r, kind, true, false)
		sc.ReqMD = metadata.MD{"token": {"v1"}, "multi": {"a", "b"}}
		sc.NoAppendedMD = true // the caller's one map is what gets written to below
		run := inner.Svc.NewRun(sc, "inproc")
		var seen metadata.MD
		run.OnHandler = func(hctx context.Context, rr *Run, _ grpc.ServerStream) {
			seen, _ = metadata.FromIncomingContext(hctx)
		}
		run.AfterOpen = func() {
			run.OutMD["token"][0] = "v2"
			run.OutMD["multi"] = append(run.OutMD["multi"], "c")
			run.OutMD["extra"] = []string{"y"}
		}
		ok, _ := run.Exec(inner.CC, nil, watchdog)
		run.Cancel()
		if !ok {
			run.ReleaseAll()
			e.Inconclusive("C10 caller-mutation-at-open: watchdog")
			return
		}
		e.Eval(fmt.Sprintf("caller-mutation-at-open|%s", kind), true)
		if seen == nil {
			return
		}
		if strings.Join(seen["token"], "|") != "v1" || strings.Join(seen["multi"], "|") != "a|b" || len(seen["extra"]) != 0 {
			e.Violate("ctx/md-snapshot-at-open", fmt.Sprintf("what the caller did to its metadata map right after NewStream returned is visible in the handler: token=%v multi=%v extra=%v", seen["token"], seen["multi"], seen["extra"]), nil)
		}
	})
}

func hostClass(h string) string {
	if h == "top" {
		return "top"
	}
	return "nested"
}
