package props

import (
	"context"
	"fmt"
	"io"
	"math/rand"
	"net/http"
	"net/url"
	"strings"
	"sync"
	"time"

	"github.com/fullstorydev/grpchan"
	"github.com/fullstorydev/grpchan/httpgrpc"
	"github.com/fullstorydev/grpchan/inprocgrpc"
	"google.golang.org/grpc"
	"google.golang.org/grpc/codes"
	"google.golang.org/grpc/status"
	"google.golang.org/protobuf/types/known/emptypb"

	"verifharness/core"
)

func init() { core.Register("C12", checkC12) }

// countingSvc counts handler invocations per full method name.
type countingSvc struct {
	mu     sync.Mutex
	counts map[string]int
}

func (c *countingSvc) hit(name string) {
	c.mu.Lock()
	c.counts[name]++
	c.mu.Unlock()
}

func (c *countingSvc) take() map[string]int {
	c.mu.Lock()
	defer c.mu.Unlock()
	out := c.counts
	c.counts = map[string]int{}
	return out
}

type anyServer interface{}

// svcObj is the handler object registered for one service: methods must be invoked with their own.
type svcObj struct{ name string }

func countingDesc(cs *countingSvc, svcName string, unary, streams []string) *grpc.ServiceDesc {
	sd := &grpc.ServiceDesc{ServiceName: svcName, HandlerType: (*anyServer)(nil)}
	for _, m := range unary {
		full := "/" + svcName + "/" + m
		sd.Methods = append(sd.Methods, grpc.MethodDesc{MethodName: m, Handler: func(srv interface{}, ctx context.Context, dec func(interface{}) error, _ grpc.UnaryServerInterceptor) (interface{}, error) {
			if err := dec(new(emptypb.Empty)); err != nil {
				return nil, err
			}
			if o, ok := srv.(*svcObj); !ok || o.name != svcName {
				cs.hit("(handler object of another registration) " + full)
				return &emptypb.Empty{}, nil
			}
			cs.hit(full)
			return &emptypb.Empty{}, nil
		}})
	}
	for i, m := range streams {
		full := "/" + svcName + "/" + m
		sd.Streams = append(sd.Streams, grpc.StreamDesc{StreamName: m, ClientStreams: i%2 == 0, ServerStreams: true, Handler: func(srv interface{}, st grpc.ServerStream) error {
			if o, ok := srv.(*svcObj); !ok || o.name != svcName {
				cs.hit("(handler object of another registration) " + full)
				return nil
			}
			cs.hit(full)
			return nil
		}})
	}
	return sd
}

type regSet struct {
	cs     *countingSvc
	descs  []*grpc.ServiceDesc
	unary  map[string]bool // full names
	stream map[string]bool
	all    []string
	// registrations that are refused (ill-typed handler under a fresh name, second registration of a name):
	// their method names are "never registered" and must not resolve to anything
	refused []*grpc.ServiceDesc
	ghost   []string
}

// decorated returns reg itself or a view of it that decorates with pass-through interceptors of one or both
// kinds (mode 0..3): names must resolve the same whichever way the service was registered.
func decorated(reg grpchan.ServiceRegistry, mode int) grpchan.ServiceRegistry {
	switch mode {
	case 1:
		return grpchan.WithInterceptor(reg, passThroughUnary, nil)
	case 2:
		return grpchan.WithInterceptor(reg, nil, passThroughStream)
	case 3:
		return grpchan.WithInterceptor(reg, passThroughUnary, passThroughStream)
	}
	return reg
}

// registerRefused attempts the registrations that must be refused; the panics are the registrar's way of
// saying no (C15) and are swallowed here.
func (rs *regSet) registerRefused(reg interface {
	RegisterService(*grpc.ServiceDesc, interface{})
}) {
	for _, d := range rs.refused {
		tryRegister(reg, d, struct{}{})
	}
}

func genRegSet(r *rand.Rand) *regSet {
	rs := &regSet{cs: &countingSvc{counts: map[string]int{}}, unary: map[string]bool{}, stream: map[string]bool{}}
	n := 1 + r.Intn(4)
	usedSvc := map[string]bool{}
	for i := 0; i < n; i++ {
		var svc string
		for {
			svc = pick(r, "pkg.Svc", "pkg.Svc2", "pkg.sub.Svc", "Svc", "pkg.SvcX", "a.b.c.D", "pkg.svc") // near-miss names on purpose
			if !usedSvc[svc] {
				usedSvc[svc] = true
				break
			}
		}
		names := []string{"Get", "GetAll", "get", "Get2", "Put", "Watch", "WatchAll", "G"}
		r.Shuffle(len(names), func(a, b int) { names[a], names[b] = names[b], names[a] })
		nu, ns := 1+r.Intn(3), r.Intn(3)
		u, s := names[:nu], names[nu:nu+ns]
		rs.descs = append(rs.descs, countingDesc(rs.cs, svc, u, s))
		for _, m := range u {
			rs.unary["/"+svc+"/"+m] = true
			rs.all = append(rs.all, "/"+svc+"/"+m)
		}
		for _, m := range s {
			rs.stream["/"+svc+"/"+m] = true
			rs.all = append(rs.all, "/"+svc+"/"+m)
		}
	}
	ghostSvc := countingDesc(rs.cs, "ghost.Refused", []string{"Get", "Extra"}, []string{"Watch"})
	ghostSvc.HandlerType = (*ifaceA)(nil) // struct{}{} does not implement it
	first := rs.descs[0]
	dup := countingDesc(rs.cs, first.ServiceName, []string{"OnlyInSecondRegistration"}, []string{"StreamOnlyInSecondRegistration"})
	rs.refused = []*grpc.ServiceDesc{ghostSvc, dup}
	rs.ghost = []string{"/ghost.Refused/Get", "/ghost.Refused/Extra", "/ghost.Refused/Watch", "/" + first.ServiceName + "/OnlyInSecondRegistration", "/" + first.ServiceName + "/StreamOnlyInSecondRegistration"}
	return rs
}

// genName produces a method-name string; httpSafe keeps it inside the HTTP
// domain (no empty / dot segments, no characters whose meaning belongs to
// net/http's mux pattern language).
func genName(r *rand.Rand, rs *regSet, httpSafe bool) string {
	reg := rs.all[r.Intn(len(rs.all))]
	if len(rs.ghost) > 0 && r.Intn(8) == 0 {
		return rs.ghost[r.Intn(len(rs.ghost))]
	}
	switch c := r.Intn(16); {
	case c < 4:
		return reg
	case c == 4:
		return reg[1:] // missing leading slash
	case c == 5:
		return pick(r, reg+"x", reg[:len(reg)-1], strings.ToUpper(reg), strings.ToLower(reg), reg+"/extra", reg+"/x/y", "/x"+reg[1:], reg+"2", "/."+reg[1:], "."+reg[1:], "/"+reg[1:strings.LastIndex(reg, "/")]+"./"+reg[strings.LastIndex(reg, "/")+1:])
	case c == 6:
		i := strings.LastIndex(reg, "/")
		return pick(r, reg[:i], reg[:i]+"/Nope", "/nope.Svc"+reg[i:], "/"+reg[i+1:], reg[:i]+reg[i+1:])
	case c == 7 && !httpSafe:
		return pick(r, "", "/", "//", "foo", "/foo", "foo/", "/foo/", "///", reg+"/", "/"+reg, reg[:strings.LastIndex(reg, "/")]+"//"+reg[strings.LastIndex(reg, "/")+1:], "/./"+reg[1:], "/a/../"+reg[1:], " ", "\x00", "/\x00/\x00")
	case c == 7:
		return pick(r, "", "/", "foo", "/foo", "/foo/bar", "/foo/bar/baz", "/pkg.Svc", "/Get", "/pkg.Svc/Get?x=1", "/pkg.Svc/Get#frag", "/pkg.Svc/Ge t", "/pkg.Svc/Gét", "/pkg.Svc/Get%2F", "/pkg.Svc/Get;v=1", "/pkg.Svc:Get")
	case c == 9:
		// percent-escapes that would decode to a registered name must not be decoded
		j := 1 + r.Intn(len(reg)-1)
		return pick(r, reg[:j]+fmt.Sprintf("%%%02X", reg[j])+reg[j+1:], reg[:j]+fmt.Sprintf("%%%02x", reg[j])+reg[j+1:],
			"/"+strings.ReplaceAll(reg[1:], "/", "%2F"), "/"+strings.ReplaceAll(reg[1:], "/", "%2f"), strings.ReplaceAll(reg, ".", "%2E"), "%2F"+reg[1:], reg+"%00", reg+"%20")
	case c == 8:
		// swap: other service's method under this service
		o := rs.all[r.Intn(len(rs.all))]
		return reg[:strings.LastIndex(reg, "/")] + o[strings.LastIndex(o, "/"):]
	default:
		n := 1 + r.Intn(3)
		var b strings.Builder
		for i := 0; i < n; i++ {
			b.WriteByte('/')
			b.WriteString(genIdent(r))
			if r.Intn(3) == 0 {
				b.WriteString("." + genIdent(r))
			}
		}
		return b.String()
	}
}

// resolve: which registered handler (if any) a name denotes.
func resolve(name string) (full string) {
	n := strings.TrimPrefix(name, "/")
	i := strings.Index(n, "/")
	if i < 0 {
		return ""
	}
	return "/" + n
}

func callName(cc grpc.ClientConnInterface, name string, asStream bool) (err error, pan string) {
	ctx, cancel := context.WithCancel(context.Background())
	defer cancel()
	pan = guard(func() {
		if !asStream {
			err = cc.Invoke(ctx, name, &emptypb.Empty{}, &emptypb.Empty{})
			return
		}
		var st grpc.ClientStream
		st, err = cc.NewStream(ctx, &grpc.StreamDesc{ClientStreams: true, ServerStreams: true}, name)
		if err != nil {
			return
		}
		st.CloseSend()
		for {
			if err = st.RecvMsg(&emptypb.Empty{}); err != nil {
				break
			}
		}
		if err == io.EOF {
			err = nil
		}
	})
	return err, pan
}

func judgeName(e *core.Env, carrier string, http bool, rs *regSet, name string, asStream bool, err error, pan string, extra string) {
	counts := rs.cs.take()
	w := map[string]any{"carrier": carrier, "name": name, "as_stream": asStream, "registered": rs.all, "config": extra, "handlers_run": counts, "error": fmt.Sprint(err)}
	sig := func(s string) string { return fmt.Sprintf("%s/%s", carrier, s) }
	if pan != "" {
		e.Violate(sig("panic"), fmt.Sprintf("method name %q (stream=%v) made the channel panic: %s", name, asStream, trunc(pan, 500)), w)
		return
	}
	target := resolve(name)
	kindSet := rs.unary
	if asStream {
		kindSet = rs.stream
	}
	allowed := kindSet[target]
	required := allowed && strings.HasPrefix(name, "/")
	total := 0
	for k, v := range counts {
		total += v
		if k != target || !allowed {
			e.Violate(sig("wrong-handler"), fmt.Sprintf("call to %q (stream=%v) ran handler %s", name, asStream, k), w)
			return
		}
	}
	if total > 1 {
		e.Violate(sig("handler-twice"), fmt.Sprintf("call to %q ran its handler %d times", name, total), w)
		return
	}
	if required {
		if total != 1 || err != nil {
			e.Violate(sig("registered-failed"), fmt.Sprintf("call to registered %q (stream=%v): handler ran %d times, err=%v", name, asStream, total, err), w)
		}
		return
	}
	if total == 1 {
		if err != nil {
			e.Violate(sig("registered-failed"), fmt.Sprintf("call to %q ran its handler but failed: %v", name, err), w)
		}
		return
	}
	// nothing ran: must be a clean status error
	if err == nil {
		e.Violate(sig("success-without-handler"), fmt.Sprintf("call to %q (stream=%v) succeeded although no handler ran", name, asStream), w)
		return
	}
	st, ok := status.FromError(err)
	if !ok || st.Code() == codes.OK {
		e.Violate(sig("non-status-error"), fmt.Sprintf("call to %q (stream=%v) failed with a non-status error: %v", name, asStream, err), w)
		return
	}
	// truly unknown, well-formed names have a prescribed code
	wellFormed := strings.HasPrefix(name, "/") && strings.Count(name, "/") == 2 && !strings.HasSuffix(name, "/") && !strings.Contains(name, "//")
	if wellFormed && !rs.unary[name] && !rs.stream[name] {
		want := codes.Unimplemented
		if http {
			want = codes.NotFound
		}
		if st.Code() != want {
			e.Violate(sig("unknown-code"), fmt.Sprintf("unknown method %q (stream=%v): code %v, want %v", name, asStream, st.Code(), want), w)
		}
	}
}

func genBasePath(r *rand.Rand) string {
	n := r.Intn(5)
	segs := make([]string, 0, n)
	for i := 0; i < n; i++ {
		switch r.Intn(6) {
		case 0:
			segs = append(segs, pick(r, "a!b", "x$y", "p&q", "it's", "(v1)", "a*b", "a+b", "a,b", "k;v=1", "k=v", "a:b", "u@h", "~tilde", "dash-_.ok"))
		case 1:
			segs = append(segs, pick(r, "grüße", "日本", "naïve"))
		case 2:
			segs = append(segs, pick(r, "what?", "a?b=c", "frag#ment", "#"))
		default:
			segs = append(segs, genIdent(r))
		}
	}
	p := "/" + strings.Join(segs, "/")
	if n > 0 && r.Intn(2) == 0 {
		p += "/"
	}
	if n >= 2 && r.Intn(6) == 0 {
		// the same path written in a longer way (a doubled slash, a "." or ".." element): client and server are
		// given the same string and agree on the path it means
		k := strings.Index(p[1:], "/") + 1
		p = p[:k] + pick(r, "//", "/./", "/zz/../") + p[k+1:]
	}
	return p
}

func checkC12(e *core.Env) {
	curEnv = e
	e.SetRule("random registered sets (1..4 services with near-miss names, 1..3 unary and 0..2 stream methods) x generated method-name strings (registered, prefixes/suffixes/case variants, missing slash, empty, extra segments, swapped service/method, random) x {Invoke, NewStream} x registration {direct, through WithInterceptor views with a unary-only, stream-only or full pass-through pair}, plus the method names of registrations that were refused (ill-typed handler, second registration of a name); in-process, httpgrpc.Server and HandleServices with random absolute base paths configured identically on both sides; oracle: per-method invocation counters, recover(), status code; distinct = (carrier, name class, call kind)")
	e.Assume("over HTTP, names with empty or dot segments are excluded (URL path normalisation) and base paths avoid blank, %, { and } (net/http mux pattern language)")
	// in-process
	e.Cases("inproc", e.N(400, 10000), func(i int, r *rand.Rand) {
		rs := genRegSet(r)
		ch := &inprocgrpc.Channel{}
		if r.Intn(3) == 0 {
			// bulk registration: the services are collected in a HandlerMap and copied to the channel with
			// reg.ForEach(ch.RegisterService), as the package documentation shows
			reg := grpchan.HandlerMap{}
			for _, d := range rs.descs {
				decorated(reg, r.Intn(4)).RegisterService(d, &svcObj{d.ServiceName})
			}
			reg.ForEach(ch.RegisterService)
			e.Count("bulk_registrations", 1)
		} else {
			for _, d := range rs.descs {
				decorated(ch, r.Intn(4)).RegisterService(d, &svcObj{d.ServiceName})
			}
		}
		rs.registerRefused(ch)
		for k := 0; k < 20; k++ {
			name := genName(r, rs, false)
			asStream := r.Intn(2) == 0
			e.Note("inproc %q stream=%v", name, asStream)
			var cc grpc.ClientConnInterface = ch
			extra := ""
			if r.Intn(4) == 0 {
				// a client interceptor that routes the call to another name (versioning, sharding): it is the name
				// the interceptor passes on that is resolved
				asked, target := genName(r, rs, false), name
				cc = grpchan.InterceptClientConn(ch, func(ctx context.Context, _ string, req, reply interface{}, c *grpc.ClientConn, invoker grpc.UnaryInvoker, opts ...grpc.CallOption) error {
					return invoker(ctx, target, req, reply, c, opts...)
				}, func(ctx context.Context, desc *grpc.StreamDesc, c *grpc.ClientConn, _ string, streamer grpc.Streamer, opts ...grpc.CallOption) (grpc.ClientStream, error) {
					return streamer(ctx, desc, c, target, opts...)
				})
				extra = fmt.Sprintf("caller asked for %q, a client interceptor routed the call to %q", asked, target)
				err, pan := callName(cc, asked, asStream)
				judgeName(e, "inproc", false, rs, name, asStream, err, pan, extra)
				e.Eval(fmt.Sprintf("inproc-routed|%s|%v", nameClass(name, rs), asStream), true)
				continue
			}
			err, pan := callName(cc, name, asStream)
			judgeName(e, "inproc", false, rs, name, asStream, err, pan, extra)
			e.Eval(fmt.Sprintf("inproc|%s|%v", nameClass(name, rs), asStream), true)
		}
		if i < 2 {
			e.Sample(map[string]any{"carrier": "inproc", "registered": rs.all, "example_name": genName(r, rs, false)})
		}
	})
	// an empty in-process channel (no services at all)
	for _, name := range []string{"/a/b", "a/b", "", "x"} {
		for _, asStream := range []bool{false, true} {
			rs := &regSet{cs: &countingSvc{counts: map[string]int{}}, unary: map[string]bool{}, stream: map[string]bool{}}
			err, pan := callName(&inprocgrpc.Channel{}, name, asStream)
			judgeName(e, "inproc-empty", false, rs, name, asStream, err, pan, "no services registered")
			e.Eval("inproc-empty|"+name, false)
		}
	}
	// HTTP with base paths
	e.Cases("http", e.N(150, 3000), func(i int, r *rand.Rand) {
		rs := genRegSet(r)
		base := genBasePath(r)
		useMux := i%2 == 1
		var h http.Handler
		if useMux {
			reg := grpchan.HandlerMap{}
			for _, d := range rs.descs {
				decorated(reg, r.Intn(4)).RegisterService(d, &svcObj{d.ServiceName})
			}
			rs.registerRefused(reg)
			mux := http.NewServeMux()
			if pan := guard(func() { httpgrpc.HandleServices(mux.HandleFunc, base, reg, nil, nil) }); pan != "" {
				e.Violate("http-mux/register-panic", fmt.Sprintf("HandleServices with base path %q panicked: %s", base, trunc(pan, 300)), base)
				return
			}
			h = mux
		} else {
			sopts := []httpgrpc.ServerOption{httpgrpc.WithBasePath(base)}
			if r.Intn(4) == 0 {
				// a server with an error renderer of its own (one that leaves the reply alone): names that do not
				// resolve are still answered NotFound
				sopts = append(sopts, httpgrpc.ErrorRenderer(func(context.Context, *status.Status, http.ResponseWriter) {}))
			}
			if r.Intn(4) == 0 {
				// defaults first, the deployment's own setting after them: the option given last is the base path
				sopts = []httpgrpc.ServerOption{httpgrpc.WithBasePath(pick(r, "/rpc/", "/defaults/v0/", "/")), httpgrpc.WithBasePath(base)}
			}
			s := httpgrpc.NewServer(sopts...)
			if pan := guard(func() {
				if r.Intn(3) == 0 {
					// collected in a HandlerMap first, then copied to the server with ForEach
					reg := grpchan.HandlerMap{}
					for _, d := range rs.descs {
						decorated(reg, r.Intn(4)).RegisterService(d, &svcObj{d.ServiceName})
					}
					reg.ForEach(s.RegisterService)
					e.Count("bulk_registrations", 1)
					return
				}
				for _, d := range rs.descs {
					decorated(s, r.Intn(4)).RegisterService(d, &svcObj{d.ServiceName})
				}
			}); pan != "" {
				e.Violate("http-server/register-panic", fmt.Sprintf("RegisterService with base path %q panicked: %s", base, trunc(pan, 300)), base)
				return
			}
			rs.registerRefused(s)
			h = s
		}
		c := httpCarrier("http", nil, h, "/", false, false)
		defer c.Close()
		u := &url.URL{Scheme: "http", Host: c.URL.Host, Path: base}
		cc := &httpgrpc.Channel{Transport: c.Transport, BaseURL: u}
		carrier := "http-server"
		if useMux {
			carrier = "http-mux"
		}
		for k := 0; k < 24; k++ {
			name := genName(r, rs, true)
			asStream := r.Intn(2) == 0
			e.Note("%s base=%q %q stream=%v", carrier, base, name, asStream)
			err, pan := callName(cc, name, asStream)
			judgeName(e, carrier, true, rs, name, asStream, err, pan, "base path "+base)
			e.Eval(fmt.Sprintf("%s|%s|%v|%d", carrier, nameClass(name, rs), asStream, strings.Count(base, "/")), true)
		}
		// requests that other HTTP clients can send and the package's own client never does: a registered name
		// with something more after it is not that method (whatever the answer is, no handler runs)
		for k := 0; k < 4 && len(rs.all) > 0; k++ {
			name := rs.all[r.Intn(len(rs.all))]
			suffix := pick(r, "/", "/.", "/x", "//", "/%2e")
			ct := httpgrpc.UnaryRpcContentType_V1
			if rs.stream[name] {
				ct = httpgrpc.StreamRpcContentType_V1
			}
			raw := "http://" + c.URL.Host + strings.TrimSuffix(base, "/") + name + suffix
			hr, herr := http.NewRequest("POST", raw, strings.NewReader(""))
			if herr != nil {
				continue
			}
			hr.Header.Set("Content-Type", ct)
			resp, derr := (&http.Client{Transport: c.Transport, Timeout: 20 * time.Second, CheckRedirect: func(*http.Request, []*http.Request) error { return http.ErrUseLastResponse }}).Do(hr)
			code := 0
			if derr == nil {
				code = resp.StatusCode
				io.Copy(io.Discard, resp.Body)
				resp.Body.Close()
			}
			e.Eval(fmt.Sprintf("%s|raw-suffix|%s", carrier, suffix), true)
			if got := rs.cs.take(); len(got) != 0 {
				e.Violate(carrier+"/wrong-handler/raw-suffix", fmt.Sprintf("POST %s (the registered name %s followed by %q) ran a handler: %v (HTTP %d)", raw, name, suffix, got, code), map[string]any{"url": raw, "http_status": code, "handlers_run": got})
			}
		}
		if i < 2 {
			e.Sample(map[string]any{"carrier": carrier, "base_path": base, "registered": rs.all})
		}
	})
	// services registered on a server (or channel) that is already in use, after their names were asked for: a
	// name that was unknown a moment ago resolves once its service is registered
	e.Cases("late-registration", e.N(40, 400), func(i int, r *rand.Rand) {
		rs := genRegSet(r)
		if len(rs.descs) < 2 {
			return
		}
		early, late := rs.descs[:1], rs.descs[1:]
		var cc grpc.ClientConnInterface
		var reg grpchan.ServiceRegistry
		carrier, isHTTP := "inproc", false
		if i%2 == 0 {
			ch := &inprocgrpc.Channel{}
			cc, reg = ch, ch
		} else {
			base := genBasePath(r)
			s := httpgrpc.NewServer(httpgrpc.WithBasePath(base))
			c := httpCarrier("http", nil, s, "/", false, false)
			defer c.Close()
			u := *c.URL
			u.Path = base
			cc, reg = &httpgrpc.Channel{Transport: c.Transport, BaseURL: &u}, s
			carrier, isHTTP = "http-server", true
		}
		for _, d := range early {
			reg.RegisterService(d, &svcObj{d.ServiceName})
		}
		// ask for the late services' methods while they are unknown (whatever comes back: they are not there yet)
		var names []string
		for _, d := range late {
			for _, m := range d.Methods {
				names = append(names, "/"+d.ServiceName+"/"+m.MethodName)
			}
			for _, m := range d.Streams {
				names = append(names, "/"+d.ServiceName+"/"+m.StreamName)
			}
		}
		for _, n := range names {
			callName(cc, n, rs.stream[n])
			callName(cc, n, !rs.stream[n])
		}
		if got := rs.cs.take(); len(got) != 0 {
			e.Violate(carrier+"/late-registration/ran-before-registered", fmt.Sprintf("handlers ran for services that were not registered yet: %v", got), nil)
			return
		}
		for _, d := range late {
			reg.RegisterService(d, &svcObj{d.ServiceName})
		}
		for k := 0; k < 12; k++ {
			name := genName(r, rs, isHTTP)
			asStream := r.Intn(2) == 0
			if k < len(names) {
				name, asStream = names[k], rs.stream[names[k]]
			}
			err, pan := callName(cc, name, asStream)
			judgeName(e, carrier, isHTTP, rs, name, asStream, err, pan, "services registered after their names had been asked for")
			e.Eval(fmt.Sprintf("late-registration|%s|%s|%v", carrier, nameClass(name, rs), asStream), true)
		}
	})
}

func nameClass(name string, rs *regSet) string {
	switch {
	case rs.unary[name]:
		return "registered-unary"
	case rs.stream[name]:
		return "registered-stream"
	case name == "":
		return "empty"
	case strings.Contains(name, "%"):
		return "percent-escape"
	case !strings.Contains(strings.TrimPrefix(name, "/"), "/"):
		return "no-method"
	case !strings.HasPrefix(name, "/"):
		return "no-leading-slash"
	case strings.Count(name, "/") > 2:
		return "extra-segments"
	}
	for _, a := range rs.all {
		if strings.HasPrefix(a, name) || strings.HasPrefix(name, a) || strings.EqualFold(a, name) {
			return "near-miss"
		}
	}
	return "unknown"
}
