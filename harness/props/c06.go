package props

import (
	"context"
	"fmt"
	"math/rand"
	"reflect"
	"sync"
	"time"

	tpb "github.com/fullstorydev/grpchan/grpchantesting"
	"github.com/fullstorydev/grpchan/inprocgrpc"
	protov1 "github.com/golang/protobuf/proto"
	"github.com/jhump/protoreflect/desc"
	"github.com/jhump/protoreflect/dynamic"
	"google.golang.org/grpc"
	"google.golang.org/grpc/encoding"
	grpcproto "google.golang.org/grpc/encoding/proto"
	"google.golang.org/grpc/metadata"
	"google.golang.org/protobuf/proto"

	"verifharness/core"
)

func init() {
	core.Register("C06", checkC06)
	core.RegisterRace("C06", func(e *core.Env) { runC06(e, 120, true) })
}

type clonerChoice struct {
	name string
	c    inprocgrpc.Cloner
}

func clonerChoices() []clonerChoice {
	return []clonerChoice{
		{"default", nil},
		{"codec", inprocgrpc.CodecCloner(encoding.GetCodec(grpcproto.Name))},
		{"clone-func", inprocgrpc.CloneFunc(func(in interface{}) (interface{}, error) {
			pm, ok := in.(protov1.Message)
			if !ok {
				return nil, fmt.Errorf("not a proto message: %T", in)
			}
			return protov1.Clone(pm), nil
		})},
		{"copy-func", inprocgrpc.CopyFunc(func(out, in interface{}) error { return inprocgrpc.ProtoCloner{}.Copy(out, in) })},
	}
}

func checkC06(e *core.Env) {
	curEnv = e
	e.SetRule("in-process calls of all kinds, both directions, cloner configurations {default, codec, clone-func, copy-func}, message shapes as C01: (1) address-disjointness walk between every object handed to the library and the object the peer obtained, (2) senders overwrite their message in place right after the send returned while the receiver is stalled, receivers scribble over what they received: neither side may observe the other's writes, (3) a hook parks the unary server goroutine before the handler decodes, the call is cancelled, Invoke returns, the caller overwrites the request, then the handler decodes, (4) destinations pre-filled in every field must equal the sent message, (5) thorough: the same under the race detector; distinct = (phase, cloner, kind, shape)")
	runC06(e, e.N(800, 12000), false)
}

func runC06(e *core.Env, n int, race bool) {
	curEnv = e
	installHooks()
	choices := clonerChoices()
	carriers := make([]*Carrier, len(choices))
	for i, ch := range choices {
		carriers[i] = NewInproc(&Service{}, carrierOpt{cloner: ch.c})
		defer carriers[i].Close()
	}

	// (1) + (4): disjointness and overwrite
	e.Cases("disjoint", n, func(i int, r *rand.Rand) {
		ci := i % len(choices)
		c := carriers[ci]
		kind := Kind((i / len(choices)) % 4)
		sc := genDeliveryScript(r, kind, false, false)
		sc.MutateAfterSend = false
		run := c.Svc.NewRun(sc, "inproc/"+choices[ci].name)
		run.Dest = func() *tpb.Message { return fullMessage(r) }
		run.HDest = func() *tpb.Message { return fullMessage(r) }
		ok, _ := run.Exec(c.CC, nil, watchdog)
		run.Cancel()
		c.Svc.Forget(run)
		if !ok {
			run.ReleaseAll()
			e.Inconclusive("C06 disjoint %s: watchdog", sc.Shape())
			return
		}
		e.Eval(fmt.Sprintf("disjoint|%s|%s", choices[ci].name, sc.Shape()), len(run.CSentObjs)+len(run.HSentObjs) > 0)
		sig := "inproc/" + choices[ci].name + "/" + kindClass(kind)
		for _, p := range deliveryOracle(run) {
			e.Violate(sig+"/residue-or-loss", "pre-filled destination / delivery: "+p, witness(run))
			break
		}
		pairs := func(recv, sent []*tpb.Message, dir string) {
			for k := 0; k < len(recv) && k < len(sent); k++ {
				e.Count("object_pairs_walked", 1)
				if sh := sharedMemory(recv[k], sent[k]); sh != "" {
					e.Violate(sig+"/shared-memory/"+dir, fmt.Sprintf("message #%d (%s): the object the receiver holds shares memory with the sender's: %s", k, dir, sh), witness(run))
					return
				}
			}
		}
		pairs(run.HRecvObjs, run.CSentObjs, "request")
		pairs(run.CRecvObjs, run.HSentObjs, "response")
		if i < 2 {
			e.Sample(map[string]any{"phase": "disjoint", "cloner": choices[ci].name, "script": sc})
		}
	})

	// (2) deterministic mutation visibility with a stalled receiver
	e.Cases("mutate", n, func(i int, r *rand.Rand) {
		ci := i % len(choices)
		c := carriers[ci]
		toServer := (i/len(choices))%2 == 0
		tag := fmt.Sprintf("%016x", r.Uint64())
		m0 := genMsg(r, tag+"/0", false)
		if len(m0.Payload) == 0 {
			m0.Payload = []byte(tag + "/payload")
		}
		m0.Headers = map[string][]byte{"h": []byte("original")}
		sc := &Script{MutateAfterSend: true, MutateAfterRecv: true}
		if toServer {
			sc.Kind = pick(r, ClientStream, Bidi, ServerStream)
			// the message is buffered, the sender scribbles over its object, only then the handler receives
			// (the gate opens by itself after 60 ms in case the stream does not buffer at all)
			sc.Sender = []Op{{Op: "send", Msg: m0}, {Op: "signal", Gate: "sent"}, {Op: "close"}}
			sc.Handler = []Op{{Op: "gatesoft", Gate: "sent"}, {Op: "recv"}}
			if sc.Kind != ServerStream {
				sc.Handler = append(sc.Handler, Op{Op: "recvall"})
			}
			sc.Handler = append(sc.Handler, Op{Op: "send", Msg: genMsg(r, tag+"/resp", false)})
			sc.Receiver = []Op{{Op: "recvall"}}
			if sc.Kind == ClientStream {
				sc.Receiver = []Op{{Op: "recv"}}
			}
		} else {
			sc.Kind = pick(r, ServerStream, Bidi)
			sc.Sender = []Op{{Op: "send", Msg: genMsg(r, tag+"/req", false)}, {Op: "close"}}
			sc.Handler = []Op{{Op: "recv"}, {Op: "send", Msg: m0}, {Op: "signal", Gate: "sent"}}
			sc.Receiver = []Op{{Op: "gatesoft", Gate: "sent"}, {Op: "recvall"}}
		}
		run, ok, _ := execScript(c, sc, func(run *Run) { run.Carrier = "inproc/" + choices[ci].name })
		if !ok {
			e.Inconclusive("C06 mutate %s: watchdog", sc.Shape())
			return
		}
		e.Eval(fmt.Sprintf("mutate|%s|%s|%v", choices[ci].name, sc.Kind, toServer), true)
		e.Count("mutations_after_send", int64(len(run.CSentObjs)+len(run.HSentObjs)))
		sig := "inproc/" + choices[ci].name + "/stream"
		for _, p := range deliveryOracle(run) {
			e.Violate(sig+"/mutation-visible", "a sender's in-place overwrite after SendMsg returned (or a receiver's scribbling) changed what the peer observed: "+p, witness(run))
			break
		}
		// receiver-side scribbling must not reach the sender's retained objects: covered by the
		// snapshots in the log (sender objects are private clones); check the script's originals
		if !sameMsg(m0, proto.Clone(m0).(*tpb.Message)) {
			e.Internal("C06: clone of a message differs from it")
		}
	})

	// unary both-direction mutation
	e.Cases("mutate-unary", n/2, func(i int, r *rand.Rand) {
		ci := i % len(choices)
		c := carriers[ci]
		sc := genDeliveryScript(r, Unary, false, false)
		sc.MutateAfterSend, sc.MutateAfterRecv = true, true
		respOrig := proto.Clone(sc.Resp).(*tpb.Message)
		run, ok, _ := execScript(c, sc, func(run *Run) { run.Carrier = "inproc/" + choices[ci].name })
		if !ok {
			e.Inconclusive("C06 mutate-unary: watchdog")
			return
		}
		e.Eval(fmt.Sprintf("mutate-unary|%s|%d", choices[ci].name, len(sc.UnaryReq.Payload)/64), true)
		sig := "inproc/" + choices[ci].name + "/unary"
		for _, p := range deliveryOracle(run) {
			e.Violate(sig+"/mutation-visible", p, witness(run))
			break
		}
		// the caller scribbled over the response it received: the handler's object must be untouched
		if !sameMsg(sc.Resp, respOrig) {
			e.Violate(sig+"/response-aliased", "the caller's writes to the response it received changed the object the handler returned", witness(run))
		}
	})

	// (3) early return: Invoke returns on cancel before the handler has decoded the request
	e.Cases("early-return", n/2, func(i int, r *rand.Rand) {
		ci := i % len(choices)
		seen, orig, resp, placed := earlyReturnUnaryResp(e, "C06", carriers[ci], "inproc/"+choices[ci].name, r)
		if !placed {
			return
		}
		if proto.Size(resp) != 0 {
			e.Violate("inproc/"+choices[ci].name+"/unary/write-after-return", "Invoke had returned (cancelled) before the handler ran; afterwards the library wrote the handler's response into the caller's response object: "+msgDesc(resp), map[string]any{"cloner": choices[ci].name, "response_object": msgDesc(resp)})
		}
		e.Eval(fmt.Sprintf("early-return|%s", choices[ci].name), true)
		e.Count("early_returns_placed", 1)
		if seen != nil && !sameMsg(seen, orig) {
			e.Violate("inproc/"+choices[ci].name+"/unary/read-after-return", fmt.Sprintf("Invoke had returned (cancelled) and the caller overwrote its request; the handler then decoded the overwritten content: %s", msgDesc(seen)), map[string]any{"cloner": choices[ci].name, "original": msgDesc(orig), "handler_saw": msgDesc(seen)})
		}
	})

	if !race {
		checkC06Dynamic(e)
		checkC06CopySources(e)
	}
}

// trackingCloner notes which objects the channel asks it to copy FROM when it fills a receiver's destination.
type trackingCloner struct {
	inprocgrpc.ProtoCloner
	mu      sync.Mutex
	sources map[uintptr]bool
	keep    []interface{} // the sources stay alive, so that no later object can take the address of one
}

func (t *trackingCloner) Copy(out, in interface{}) error {
	if rv := reflect.ValueOf(in); rv.Kind() == reflect.Ptr {
		t.mu.Lock()
		t.sources[rv.Pointer()] = true
		t.keep = append(t.keep, in)
		t.mu.Unlock()
	}
	return t.ProtoCloner.Copy(out, in)
}

// checkC06CopySources: whatever the receiver's destination is filled from, it is a copy the channel made when the
// message was sent - never the very object the sending side handed in (which that side owns again as soon as the
// send has returned). Senders that run ahead of a stalled receiver, several messages each way, all kinds.
func checkC06CopySources(e *core.Env) {
	curEnv = e
	e.Cases("copy-sources", e.N(60, 600), func(i int, r *rand.Rand) {
		tc := &trackingCloner{sources: map[uintptr]bool{}}
		c := NewInproc(&Service{}, carrierOpt{cloner: tc})
		defer c.Close()
		kind := Kind(i % 4)
		tag := fmt.Sprintf("%016x", r.Uint64())
		sc := genDeliveryScript(r, kind, false, false)
		if kind.ServerStreams() {
			// the handler says several things before the client starts to listen
			for k := 0; k < 3; k++ {
				sc.Handler = append(sc.Handler, Op{Op: "send", Msg: genMsg(r, fmt.Sprintf("%s/extra/%d", tag, k), false)})
			}
			sc.Receiver = append([]Op{{Op: "gatesoft", Gate: "listen"}}, sc.Receiver...)
		}
		run, ok, _ := execScript(c, sc, nil)
		if !ok {
			e.Inconclusive("C06 copy-sources %s: watchdog", sc.Shape())
			return
		}
		e.Eval(fmt.Sprintf("copy-sources|%s", kind), true)
		run.objMu.Lock()
		app := append([]*tpb.Message{}, run.CSentObjs...)
		if kind != Unary {
			// (a unary handler's return value is copied once the handler has returned: that object is not in use)
			app = append(app, run.HSentObjs...)
		}
		run.objMu.Unlock()
		tc.mu.Lock()
		defer tc.mu.Unlock()
		e.Count("copy_sources_seen", int64(len(tc.sources)))
		for _, m := range app {
			if m != nil && tc.sources[reflect.ValueOf(m).Pointer()] {
				e.Violate("inproc/tracking/"+kindClass(kind)+"/receiver-filled-from-senders-object", "a receiver's destination was filled straight from the object the sending side had passed to SendMsg / Invoke (not from a copy made when it was sent): whatever the sender does to its object after the send returned can reach the receiver", witness(run))
				return
			}
		}
	})
}

// checkC06Dynamic: stream sends of dynamic messages (jhump) with a stalled receiver.
func checkC06Dynamic(e *core.Env) {
	curEnv = e
	c := NewInproc(&Service{}, carrierOpt{})
	defer c.Close()
	md, err := desc.LoadMessageDescriptorForMessage(protov1.MessageV1(&tpb.Message{}))
	if err != nil {
		e.Internal("cannot load descriptor: %v", err)
		return
	}
	e.Cases("dynamic", e.N(20, 100), func(i int, r *rand.Rand) {
		payload := []byte(fmt.Sprintf("dynamic-payload-%d-%d", i, r.Intn(1000)))
		want := string(payload)
		dm := dynamic.NewMessage(md)
		dm.SetFieldByName("payload", payload)
		dm.SetFieldByName("count", int32(7))
		sc := &Script{Kind: ClientStream, Handler: []Op{{Op: "gatesoft", Gate: "sent"}, {Op: "recvall"}, {Op: "send", Msg: &tpb.Message{}}}}
		run := c.Svc.NewRun(sc, "inproc/dynamic")
		defer c.Svc.Forget(run)
		if i%2 == 1 {
			// the handler receives into a generated message that still holds older content
			run.HDest = func() *tpb.Message { return fullMessage(r) }
		}
		ctx, cancel := context.WithCancel(metadata.AppendToOutgoingContext(context.Background(), runKey, run.ID))
		defer cancel()
		st, err := c.CC.NewStream(ctx, ClientStream.StreamDesc(), ClientStream.Method())
		if err != nil {
			e.Inconclusive("C06 dynamic: %v", err)
			return
		}
		if err := st.SendMsg(dm); err != nil {
			e.Inconclusive("C06 dynamic send: %v", err)
			return
		}
		for k := range payload { // re-use of the message after SendMsg returned
			payload[k] = 0xEE
		}
		run.Release("sent")
		st.CloseSend()
		st.RecvMsg(new(tpb.Message))
		e.Eval("dynamic|stream-send", true)
		rv := run.Rets("h", "recv")
		if len(rv) > 0 && rv[0].Msg != nil {
			if m := rv[0].Msg; m.Count != 7 || m.Code != 0 || m.DelayMillis != 0 || len(m.Headers) != 0 || len(m.Trailers) != 0 || len(m.ErrorDetails) != 0 {
				e.Violate("inproc/default/dynamic/residue-or-loss", "a dynamic message was received into a generated message that held older content: the result is not the message sent: "+msgDesc(m), map[string]any{"sent": "payload + count=7", "handler_saw": msgDesc(m)})
			}
		}
		if len(rv) > 0 && rv[0].Msg != nil && string(rv[0].Msg.Payload) != want {
			e.Violate("inproc/default/dynamic/mutation-visible", "caller overwrote the bytes of a dynamic message after SendMsg returned; the handler received the overwritten bytes", map[string]any{"sent": want, "handler_saw": fmt.Sprintf("%q", rv[0].Msg.Payload)})
		}
	})
	_ = grpc.Header
}

// earlyReturnUnary makes an in-process unary call return on cancellation while the server goroutine is
// parked at its very start, lets the caller overwrite its request (legal once Invoke has returned) and
// then lets the server side go on. It reports what the handler decoded (nil if it never got that far).
func earlyReturnUnary(e *core.Env, prop string, c *Carrier, name string, r *rand.Rand) (seen, orig *tpb.Message, placed bool) {
	seen, orig, _, placed = earlyReturnUnaryResp(e, prop, c, name, r)
	return
}

// earlyReturnUnaryResp also reports the caller's response object as it is once the server side has finished.
func earlyReturnUnaryResp(e *core.Env, prop string, c *Carrier, name string, r *rand.Rand) (seen, orig, resp *tpb.Message, placed bool) {
	sc := genDeliveryScript(r, Unary, false, false)
	if len(sc.UnaryReq.Payload) == 0 {
		sc.UnaryReq.Payload = []byte("early-return-payload")
	}
	orig = proto.Clone(sc.UnaryReq).(*tpb.Message)
	req := proto.Clone(sc.UnaryReq).(*tpb.Message)
	run := c.Svc.NewRun(sc, name)
	plan := newHookPlan()
	plan.parkPt, plan.parkNth = "unary.server.start", 1
	hookPlans.Store(run.ID, plan)
	defer hookPlans.Delete(run.ID)
	defer c.Svc.Forget(run)
	var mu sync.Mutex
	run.OnHRecv = func(m *tpb.Message) {
		mu.Lock()
		seen = proto.Clone(m).(*tpb.Message)
		mu.Unlock()
	}
	ctx, cancel := context.WithCancel(metadata.AppendToOutgoingContext(context.Background(), runKey, run.ID))
	defer cancel()
	res := make(chan error, 1)
	resp = new(tpb.Message)
	go func() { res <- c.CC.Invoke(ctx, Unary.Method(), req, resp) }()
	select {
	case <-plan.parked:
	case err := <-res:
		plan.Release()
		e.Inconclusive("%s early-return: Invoke returned before the server goroutine reached its start hook: %v", prop, err)
		return nil, orig, resp, false
	case <-time.After(watchdog):
		plan.Release()
		e.Inconclusive("%s early-return: hook not reached", prop)
		return nil, orig, resp, false
	}
	cancel()
	select {
	case <-res:
	case <-time.After(watchdog):
		plan.Release()
		e.Inconclusive("%s early-return: Invoke did not return after cancel", prop)
		return nil, orig, resp, false
	}
	// Invoke has returned: the caller may reuse its message
	mutateMsg(req)
	if r.Intn(2) == 0 {
		// ... and goes on to its next call of the same method, which runs to completion while the server side of the
		// abandoned call has still not looked at its request
		sc2 := &Script{Kind: Unary, UnaryReq: &tpb.Message{Payload: []byte("request of the caller's next call"), Count: 777}, Resp: &tpb.Message{Payload: []byte("reply 2")}}
		run2 := c.Svc.NewRun(sc2, name)
		ctx2, cancel2 := context.WithTimeout(metadata.AppendToOutgoingContext(context.Background(), runKey, run2.ID), 5*time.Second)
		c.CC.Invoke(ctx2, Unary.Method(), sc2.UnaryReq, new(tpb.Message))
		cancel2()
		c.Svc.Forget(run2)
	}
	plan.Release()
	// let the server goroutine finish (it may or may not run the handler)
	select {
	case <-run.handlerDone:
	case <-time.After(300 * time.Millisecond):
	}
	mu.Lock()
	defer mu.Unlock()
	return seen, orig, resp, true
}
