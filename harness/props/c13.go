package props

import (
	"context"
	"errors"
	"fmt"
	"github.com/fullstorydev/grpchan"
	tpb "github.com/fullstorydev/grpchan/grpchantesting"
	"github.com/fullstorydev/grpchan/httpgrpc"
	"github.com/fullstorydev/grpchan/inprocgrpc"
	"io"
	"math/rand"
	"net/http"
	"net/http/httptest"
	"net/url"
	"strings"
	"sync/atomic"
	"time"

	"google.golang.org/grpc"
	"google.golang.org/grpc/credentials"
	"google.golang.org/grpc/metadata"
	"google.golang.org/grpc/peer"

	"verifharness/core"
)

func init() { core.Register("C13", checkC13) }

type testCreds struct {
	md     map[string]string
	err    error
	secure bool
	calls  atomic.Int32
}

func (c *testCreds) GetRequestMetadata(ctx context.Context, uri ...string) (map[string]string, error) {
	c.calls.Add(1)
	return c.md, c.err
}
func (c *testCreds) RequireTransportSecurity() bool { return c.secure }

type countingRT struct {
	inner http.RoundTripper
	n     atomic.Int32
}

func (c *countingRT) RoundTrip(r *http.Request) (*http.Response, error) {
	c.n.Add(1)
	return c.inner.RoundTrip(r)
}

func checkC13(e *core.Env) {
	curEnv = e
	e.SetRule("matrix {http, https, in-process, http and https over a unix-domain socket, https with a client that does not verify the certificate chain, http through a TLS-configured transport, http on the IPv6 loopback} x {handler succeeds, handler fails with a status} x {creds require security, not} x 4 RPC kinds x credential metadata {disjoint, overlapping caller keys, empty, error} x {peer option, header option present/absent}, caller metadata random per cell; oracle: requests issued (counting RoundTripper), handler's incoming metadata = caller values then credential values per key, peer option and handler peer have an address and TLS auth info on TLS; distinct = matrix cells")
	e.SetExhaustive(true)
	plain := NewHTTPServer(&Service{}, carrierOpt{})
	tls := NewHTTPServer(&Service{}, carrierOpt{tls: true})
	tlsMux := NewHTTPMux(&Service{}, carrierOpt{tls: true, basePath: "/sec/"})
	inp := NewInproc(&Service{}, carrierOpt{})
	unixPlain := NewHTTPServer(&Service{}, carrierOpt{unix: true})
	unixTLS := NewHTTPMux(&Service{}, carrierOpt{unix: true, tls: true})
	tlsSkip := NewHTTPServer(&Service{}, carrierOpt{tls: true, skipVerify: true})
	defer tlsSkip.Close()
	// a plain-http back end reached through a transport that is configured for TLS (shared with https back ends)
	plainTLSConf := NewHTTPServer(&Service{}, carrierOpt{tlsConfigured: true})
	defer plainTLSConf.Close()
	// IPv6 literal in the base URL (skipped where there is no IPv6 loopback)
	v6 := NewHTTPMux(&Service{}, carrierOpt{ipv6: true})
	if v6 != nil {
		defer v6.Close()
	} else {
		e.Count("ipv6_loopback_unavailable", 1)
	}
	defer unixPlain.Close()
	defer unixTLS.Close()
	defer plain.Close()
	defer tls.Close()
	defer tlsMux.Close()
	defer inp.Close()
	type tcase struct {
		c      *Carrier
		scheme string
	}
	carriers := []tcase{{plain, "http"}, {tls, "https"}, {tlsMux, "https"}, {inp, "inproc"}, {unixPlain, "http"}, {unixTLS, "https"}, {tlsSkip, "https"}, {plainTLSConf, "http"}}
	if v6 != nil {
		carriers = append(carriers, tcase{v6, "http"})
	}
	credKinds := []string{"disjoint", "overlap", "empty", "error"}
	caseNo := 0
	reps := e.N(3, 40)
	for rep := 0; rep < reps; rep++ {
		for _, tc := range carriers {
			for _, secure := range []bool{false, true} {
				for kind := Unary; kind <= Bidi; kind++ {
					for _, ck := range credKinds {
						for _, withOpts := range []bool{false, true} {
							caseNo++
							if !e.Selected("matrix", caseNo) {
								continue
							}
							r := e.CaseRand("matrix", caseNo)
							cell := fmt.Sprintf("%s(%s)|secure=%v|%s|creds=%s|opts=%v", tc.c.Name, tc.scheme, secure, kind, ck, withOpts)
							e.Begin("matrix", caseNo, cell)
							runC13Cell(e, r, tc.c, tc.scheme, secure, kind, ck, withOpts, cell)
						}
					}
				}
			}
		}
	}
	// calls that carry no metadata at all (no caller metadata, no credentials or credentials with an empty
	// map): the handler's peer is there all the same
	{
		var sawPeer []bool
		probeDesc := &grpc.ServiceDesc{ServiceName: "c13.Probe", HandlerType: (*interface{})(nil),
			Methods: []grpc.MethodDesc{{MethodName: "U", Handler: func(srv interface{}, ctx context.Context, dec func(interface{}) error, _ grpc.UnaryServerInterceptor) (interface{}, error) {
				if err := dec(new(tpb.Message)); err != nil {
					return nil, err
				}
				p, ok := peer.FromContext(ctx)
				sawPeer = append(sawPeer, ok && p != nil && p.Addr != nil)
				return &tpb.Message{}, nil
			}}},
			Streams: []grpc.StreamDesc{{StreamName: "S", ServerStreams: true, ClientStreams: true, Handler: func(srv interface{}, st grpc.ServerStream) error {
				p, ok := peer.FromContext(st.Context())
				sawPeer = append(sawPeer, ok && p != nil && p.Addr != nil)
				return nil
			}}}}
		ch := &inprocgrpc.Channel{}
		ch.RegisterService(probeDesc, struct{}{})
		for ci, copts := range [][]grpc.CallOption{nil, {grpc.PerRPCCredentials(&testCreds{md: map[string]string{}})}} {
			for _, stream := range []bool{false, true} {
				sawPeer = nil
				caseNo++
				e.Begin("no-metadata", caseNo, fmt.Sprintf("creds=%d stream=%v", ci, stream))
				var err error
				if !stream {
					err = ch.Invoke(context.Background(), "/c13.Probe/U", &tpb.Message{}, new(tpb.Message), copts...)
				} else {
					var st grpc.ClientStream
					st, err = ch.NewStream(context.Background(), &probeDesc.Streams[0], "/c13.Probe/S", copts...)
					if err == nil {
						st.CloseSend()
						err = st.RecvMsg(new(tpb.Message))
						if err == io.EOF {
							err = nil
						}
					}
				}
				e.Eval(fmt.Sprintf("no-metadata|%d|%v", ci, stream), true)
				if err != nil || len(sawPeer) != 1 {
					e.Violate("peer/no-metadata/call-failed", fmt.Sprintf("in-process call without any metadata (stream=%v): err=%v, handler runs=%d", stream, err, len(sawPeer)), nil)
				} else if !sawPeer[0] {
					e.Violate("peer/no-metadata/handler-peer-missing", fmt.Sprintf("in-process call without any metadata (stream=%v, empty credentials=%v): the handler's context has no peer", stream, ci == 1), nil)
				}
			}
		}
	}
	// one channel object whose base URL the application changes between calls (a fail-over from a plain back end
	// to a TLS one and back; the transport serves both): every call is judged, and sent, by the URL the channel
	// has at that moment
	{
		ch := &httpgrpc.Channel{Transport: tls.Transport, BaseURL: plain.URL}
		for step, target := range []*Carrier{plain, tls, plain, tls} {
			for _, stream := range []bool{false, true} {
				caseNo++
				if !e.Selected("base-url-switch", caseNo) {
					continue
				}
				e.Begin("base-url-switch", caseNo, fmt.Sprintf("step=%d stream=%v", step, stream))
				ch.BaseURL = target.URL
				secureTarget := target == tls
				kind := Unary
				if stream {
					kind = ServerStream
				}
				sc := genDeliveryScript(rand.New(rand.NewSource(int64(caseNo))), kind, true, false)
				creds := &testCreds{secure: true, md: map[string]string{"cred-token": "t0k3n"}}
				sc.ExtraOpts = []grpc.CallOption{grpc.PerRPCCredentials(creds)}
				svc := target.Svc
				run := svc.NewRun(sc, target.Name)
				beforePlain, beforeTLS := plain.ReqCount.Load(), tls.ReqCount.Load()
				ok, _ := run.Exec(ch, nil, watchdog)
				run.Cancel()
				svc.Forget(run)
				if !ok {
					run.ReleaseAll()
					e.Inconclusive("C13 base-url-switch: watchdog")
					continue
				}
				e.Eval(fmt.Sprintf("base-url-switch|step=%d|stream=%v", step, stream), true)
				dPlain, dTLS := plain.ReqCount.Load()-beforePlain, tls.ReqCount.Load()-beforeTLS
				out := run.ClientOutcome()
				w := map[string]any{"step": step, "stream": stream, "base_url_now": target.URL.String(), "requests_to_plain": dPlain, "requests_to_tls": dTLS, "error": fmt.Sprint(out.Err)}
				switch {
				case secureTarget && dPlain != 0:
					e.Violate("creds/request-issued/http/after-base-url-switch", "the channel's base URL is https now; a call with credentials that require transport security sent a request to the earlier plain-http address", w)
				case !secureTarget && (dPlain != 0 || dTLS != 0):
					e.Violate("creds/request-issued/http/after-base-url-switch", "the channel's base URL is plain http now; a call with credentials that require transport security issued a request all the same", w)
				case !secureTarget && out.Seen && out.OK:
					e.Violate("creds/success/http", "call succeeded over plain http although the credentials require transport security", w)
				case secureTarget && (dTLS != 1 || !out.Seen || !out.OK):
					e.Violate("creds/call-failed/https/after-base-url-switch", fmt.Sprintf("the channel's base URL is https now: %d requests reached the TLS server, outcome %v", dTLS, out.Err), w)
				}
			}
		}
	}
	// an https front end that redirects to a plain-http address: credentials that require transport security
	// never arrive there
	{
		var plainHits, credHits atomic.Int32
		plainSrv := httptest.NewServer(http.HandlerFunc(func(w http.ResponseWriter, r *http.Request) {
			plainHits.Add(1)
			if r.Header.Get("Authorization") != "" {
				credHits.Add(1)
			}
			w.WriteHeader(200)
		}))
		front := httptest.NewTLSServer(http.HandlerFunc(func(w http.ResponseWriter, r *http.Request) {
			http.Redirect(w, r, plainSrv.URL+r.URL.Path, pick(rand.New(rand.NewSource(int64(plainHits.Load()))), 307, 308))
		}))
		fu, _ := url.Parse(front.URL)
		ch := &httpgrpc.Channel{Transport: front.Client().Transport, BaseURL: fu}
		creds := grpc.PerRPCCredentials(&testCreds{secure: true, md: map[string]string{"authorization": "Bearer secret"}})
		for _, stream := range []bool{false, true} {
			caseNo++
			e.Begin("redirect", caseNo, fmt.Sprint(stream))
			ctx, cancel := context.WithTimeout(context.Background(), 5*time.Second)
			if !stream {
				ch.Invoke(ctx, Unary.Method(), &tpb.Message{}, new(tpb.Message), creds)
			} else if st, err := ch.NewStream(ctx, ServerStream.StreamDesc(), ServerStream.Method(), creds); err == nil {
				st.SendMsg(&tpb.Message{})
				st.CloseSend()
				st.RecvMsg(new(tpb.Message))
			}
			cancel()
			e.Eval(fmt.Sprintf("redirect|%v", stream), true)
		}
		if credHits.Load() > 0 || plainHits.Load() > 0 {
			e.Violate("creds/redirect-to-plain", fmt.Sprintf("the https front end answered with a redirect to an http:// address: %d request(s) were sent there, %d of them with the credentials", plainHits.Load(), credHits.Load()), nil)
		}
		front.Close()
		plainSrv.Close()
	}
	e.Sample(map[string]any{"cells": caseNo, "example": "http-server(https)|secure=true|unary|creds=overlap|opts=true: handler must see caller values then credential values; grpc.Peer target must carry credentials.TLSInfo"})
}

func runC13Cell(e *core.Env, r *rand.Rand, c *Carrier, scheme string, secure bool, kind Kind, ck string, withOpts bool, cell string) {
	curEnv = e
	sc := genDeliveryScript(r, kind, true, false)
	sc.ReqMD = genMD(r, 3, false)
	sc.ReqMD["shared-key"] = []string{"caller-1", "caller-2"}
	if r.Intn(2) == 0 {
		// metadata a gateway forwards from its own callers: to the server these are ordinary pairs, what it reports
		// about the peer comes from the connection
		k := pick(r, "x-forwarded-for", "x-real-ip", "forwarded", "x-forwarded-proto", "x-forwarded-host", "via")
		sc.ReqMD[k] = []string{pick(r, "203.0.113.9", "203.0.113.9, 10.0.0.1", "for=198.51.100.17;proto=https", "https", "[2001:db8::1]:443")}
	}
	creds := &testCreds{secure: secure}
	switch ck {
	case "disjoint":
		creds.md = map[string]string{"cred-token": "t0k3n", "cred-b-bin": "\x00\xffbin", "Cred-Upper": "U"}
	case "overlap":
		creds.md = map[string]string{"shared-key": "cred-3", "cred-token": "x"}
	case "empty":
		creds.md = map[string]string{}
	case "error":
		creds.err = errors.New("credential failure")
	}
	sc.ExtraOpts = []grpc.CallOption{grpc.PerRPCCredentials(creds)}
	// a third of the calls end with an error status from the handler: metadata and peers are reported all the same
	failCode := uint32(0)
	if r.Intn(3) == 0 {
		failCode = uint32(1 + r.Intn(16))
		sc.Ret = Ret{How: "status", Code: failCode, Msg: "c13"}
		cell += "|handler-fails"
	}
	var peer2 *peer.Peer
	if withOpts {
		// the peer option alone, or next to header and/or trailer options, once or twice
		sc.PeerOpt = true
		sc.NHdrOpt = r.Intn(2)
		sc.NTrlOpt = r.Intn(2)
		if r.Intn(2) == 0 {
			// the caller's own variable, used for one call after another over different channels: each call
			// overwrites it completely
			peer2 = c13ReusedPeer
			sc.ExtraOpts = append(sc.ExtraOpts, grpc.Peer(peer2))
		}
		cell += fmt.Sprintf("|hdr=%d,trl=%d,peers=%d", sc.NHdrOpt, sc.NTrlOpt, 1+btoi(peer2 != nil))
	}
	// the channel uses the carrier's own *http.Transport (no wrapper: what kind of transport it is may matter);
	// requests are counted where they arrive
	cc := c.CC
	if w := r.Intn(6); w < 3 {
		// applications often put client interceptors of one kind only on a channel (tracing for unary calls,
		// say): credentials and peer targets are call options and travel through such a wrapper unchanged
		var u grpc.UnaryClientInterceptor
		var s grpc.StreamClientInterceptor
		if w != 1 {
			u = func(ctx context.Context, m string, req, reply interface{}, c *grpc.ClientConn, inv grpc.UnaryInvoker, opts ...grpc.CallOption) error {
				return inv(ctx, m, req, reply, c, opts...)
			}
		}
		if w != 0 {
			s = func(ctx context.Context, d *grpc.StreamDesc, c *grpc.ClientConn, m string, st grpc.Streamer, opts ...grpc.CallOption) (grpc.ClientStream, error) {
				return st(ctx, d, c, m, opts...)
			}
		}
		cc = grpchan.InterceptClientConn(cc, u, s)
		cell += fmt.Sprintf("|client-interceptors=%d", w)
	}
	var reqBefore int64
	if c.HTTP {
		reqBefore = c.ReqCount.Load()
	}
	run := c.Svc.NewRun(sc, c.Name)
	ok, _ := run.Exec(cc, nil, watchdog)
	run.Cancel()
	c.Svc.Forget(run)
	if !ok {
		run.ReleaseAll()
		e.Inconclusive("C13 %s: watchdog", cell)
		return
	}
	e.Eval(cell, true)
	w := map[string]any{"cell": cell, "caller_md": sc.ReqMD, "cred_md": creds.md, "events": run.Events()}
	out := run.ClientOutcome()
	_, handlerRan := run.HandlerReturn()
	mustFail := (secure && scheme == "http") || ck == "error"
	if mustFail {
		nreq := int64(0)
		if c.HTTP {
			nreq = c.ReqCount.Load() - reqBefore
		}
		if nreq != 0 || handlerRan {
			e.Violate("creds/request-issued/"+scheme, fmt.Sprintf("%s: %d HTTP requests were issued / handler ran=%v although the credentials could not be applied", cell, nreq, handlerRan), w)
		}
		if out.Seen && out.OK {
			e.Violate("creds/success/"+scheme, cell+": call succeeded although the credentials could not be applied", w)
		}
		return
	}
	if failCode != 0 {
		if !handlerRan || !out.Seen || out.OK {
			e.Violate("creds/call-failed/"+scheme, fmt.Sprintf("%s: handler should have run and failed the call with code %d: ran=%v outcome=%+v", cell, failCode, handlerRan, out), w)
			return
		}
	} else if !handlerRan || !out.Seen || !out.OK {
		e.Violate("creds/call-failed/"+scheme, fmt.Sprintf("%s: call should work but failed: %v", cell, out.Err), w)
		return
	}
	if creds.calls.Load() < 1 {
		e.Violate("creds/calls", fmt.Sprintf("%s: the call succeeded although the credentials were never asked for their metadata", cell), w)
	}
	// handler metadata = caller values followed by credential values
	want := metadata.MD{}
	for k, v := range sc.ReqMD {
		want[k] = append([]string(nil), v...)
	}
	for k, v := range creds.md {
		k = strings.ToLower(k) // metadata keys are case-insensitive and reach the handler in lower case
		want[k] = append(want[k], v)
	}
	if ok, why := mdContains(run.HandlerMD, want); !ok {
		e.Violate("creds/metadata/"+scheme, cell+": handler metadata wrong: "+why, w)
	}
	// peers
	wantTLS := scheme == "https"
	unix := strings.HasSuffix(c.Name, "-unix")
	if p := run.HandlerPeer; p == nil || p.Addr == nil || (p.Addr.String() == "" && !unix) {
		e.Violate("peer/handler-addr/"+scheme, cell+": handler peer has no address", w)
	} else if ra, known := remoteOf(c, run.ID); known && !unix && p.Addr.String() != ra {
		e.Violate("peer/handler-addr-wrong/"+scheme, fmt.Sprintf("%s: the handler's peer reports %q, the request arrived on a connection from %q", cell, p.Addr.String(), ra), w)
	} else if !wantTLS && c.HTTP && p.AuthInfo != nil {
		e.Violate("peer/handler-tls-on-plain", fmt.Sprintf("%s: the handler's peer has auth info %T on a plain connection", cell, p.AuthInfo), w)
	} else if wantTLS {
		if _, ok := p.AuthInfo.(credentials.TLSInfo); !ok {
			e.Violate("peer/handler-tls", fmt.Sprintf("%s: handler peer auth info is %T on a TLS connection", cell, p.AuthInfo), w)
		}
	}
	for pi, p := range []*peer.Peer{run.PeerTarget, peer2} {
		if !withOpts || (pi == 1 && peer2 == nil) {
			continue
		}
		if p == nil || p.Addr == nil || p.Addr.String() == "" {
			e.Violate("peer/option-addr/"+scheme+"/"+kindClass(kind), cell+": grpc.Peer target has no address", w)
		} else if c.HTTP && !unix && p.Addr.String() != c.URL.Host {
			e.Violate("peer/option-addr-wrong/"+kindClass(kind), fmt.Sprintf("%s: grpc.Peer target reports %q, the server listens on %q", cell, p.Addr.String(), c.URL.Host), w)
		} else if wantTLS {
			if ti, ok := p.AuthInfo.(credentials.TLSInfo); !ok {
				e.Violate("peer/option-tls/"+kindClass(kind), fmt.Sprintf("%s: grpc.Peer target auth info is %T on a TLS connection", cell, p.AuthInfo), w)
			} else if !ti.State.HandshakeComplete {
				e.Violate("peer/option-tls/"+kindClass(kind), cell+": grpc.Peer TLS state has no completed handshake", w)
			}
		} else if scheme == "http" && p.AuthInfo != nil {
			e.Violate("peer/option-tls-on-plain", fmt.Sprintf("%s: grpc.Peer target has auth info %T on a plain connection", cell, p.AuthInfo), w)
		}
	}
}

var c13ReusedPeer = new(peer.Peer)

func remoteOf(c *Carrier, id string) (string, bool) {
	if c.RemoteOf == nil {
		return "", false
	}
	v, ok := c.RemoteOf.Load(id)
	if !ok {
		return "", false
	}
	c.RemoteOf.Delete(id)
	return v.(string), true
}

func btoi(b bool) int {
	if b {
		return 1
	}
	return 0
}
