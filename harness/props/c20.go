package props

import (
	"bytes"
	"context"
	"fmt"
	tpb "github.com/fullstorydev/grpchan/grpchantesting"
	"github.com/fullstorydev/grpchan/inprocgrpc"
	"google.golang.org/grpc"
	"math/rand"
	"strings"
	"sync"
	"sync/atomic"
	"time"

	"google.golang.org/grpc/metadata"

	"verifharness/core"
)

func init() {
	core.Register("C20", checkC20)
	core.RegisterRace("C20", func(e *core.Env) { runC20(e, 40) })
}

func checkC20(e *core.Env) {
	curEnv = e
	e.SetRule("in-process streams of all stream kinds, both directions, 1..200 attempted sends, receiver stalling after k in {0,1,2,5} receives (optionally after Header()), with and without pending header frames; counters at the API boundary assert at every successful send return: completed sends <= receives started by the peer + 1; the stalled sender is observed parked inside SendMsg, then one of {peer receives, peer finishes, context ends} is applied and the send must return; distinct = (direction, kind, k, headers, release); when the receiver goes on, every send has succeeded and everything offered has arrived (backpressure is waiting, not failing); second phase: a full-duplex handler whose pusher goroutine is blocked while the handler receives from a client that sends before it listens (the directions are independent), a single-response method whose handler keeps sending after the client failed the call (the handler's sends end although the caller's context lives on), and a handler that returns while a helper goroutine of its own and the client are both blocked inside SendMsg (the client's send is released by the peer finishing)")
	e.Assume("a receive counts as started when the application calls RecvMsg or Header(); the bound is read after the send returned, which can only loosen it")
	runC20(e, e.N(240, 3000))
}

// waitStalled waits until the run's event log has been quiet for a while and
// a goroutine is parked inside a library SendMsg; ok=false if the run ended.
func waitStalled(run *Run, done <-chan struct{}) (stalled bool, inSend bool) {
	last, quiet := -1, 0
	for i := 0; i < 400; i++ {
		select {
		case <-done:
			return false, false
		default:
		}
		n := len(run.Events())
		if n == last {
			quiet++
		} else {
			quiet, last = 0, n
		}
		if quiet >= 4 {
			st := allStacks()
			return true, strings.Contains(st, ").SendMsg(") && strings.Contains(st, "grpchan/inprocgrpc")
		}
		time.Sleep(5 * time.Millisecond)
	}
	return true, false
}

// countingCloner counts the copies the channel makes (what a stalled stream holds are such copies).
type countingCloner struct {
	inprocgrpc.ProtoCloner
	clones atomic.Int64
}

func (c *countingCloner) Clone(in interface{}) (interface{}, error) {
	c.clones.Add(1)
	return c.ProtoCloner.Clone(in)
}

// runC20FanIn: a fan-in handler (several goroutines of one handler sending on the stream, which the in-process
// server stream serialises with its lock) against a client that does not receive: however many sends are
// attempted, the stalled stream holds a small constant number of copies, not one per attempt.
func runC20FanIn(e *core.Env) {
	e.Cases("fan-in-on-stalled-stream", e.N(6, 40), func(i int, r *rand.Rand) {
		cl := &countingCloner{}
		ch := (&inprocgrpc.Channel{}).WithCloner(cl)
		senders := pick(r, 8, 16, 40)
		started := make(chan struct{})
		release := make(chan struct{})
		ch.RegisterService(&grpc.ServiceDesc{ServiceName: "c20.FanIn", HandlerType: (*interface{})(nil), Streams: []grpc.StreamDesc{{StreamName: "S", ClientStreams: true, ServerStreams: true,
			Handler: func(_ interface{}, ss grpc.ServerStream) error {
				var wg sync.WaitGroup
				for k := 0; k < senders; k++ {
					wg.Add(1)
					go func(k int) {
						defer wg.Done()
						ss.SendMsg(&tpb.Message{Payload: bytes.Repeat([]byte{byte(k)}, 2000), Count: int32(k)})
					}(k)
				}
				close(started)
				<-release
				wg.Wait()
				return nil
			}}}}, struct{}{})
		ctx, cancel := context.WithCancel(context.Background())
		st, err := ch.NewStream(ctx, &grpc.StreamDesc{ClientStreams: true, ServerStreams: true}, "/c20.FanIn/S")
		if err != nil {
			cancel()
			e.Inconclusive("C20 fan-in: %v", err)
			return
		}
		_ = st
		select {
		case <-started:
		case <-time.After(watchdog):
			cancel()
			e.Inconclusive("C20 fan-in: handler did not start")
			return
		}
		// wait until the number of copies has stopped changing (the senders are parked)
		last, same := int64(-1), 0
		for k := 0; k < 400 && same < 20; k++ {
			time.Sleep(2 * time.Millisecond)
			if n := cl.clones.Load(); n == last {
				same++
			} else {
				last, same = n, 0
			}
		}
		held := cl.clones.Load()
		e.Eval(fmt.Sprintf("fan-in|senders=%d", senders), true)
		e.Count("fan_in_copies_held_max", held)
		if held > 3 {
			e.Violate("backpressure/fan-in/copies-held", fmt.Sprintf("%d goroutines of one handler send on a stream whose client does not receive: the channel has made %d copies of messages it cannot deliver (a small constant number is held on the unchanged design: the buffered one and the one being offered)", senders, held), map[string]any{"senders": senders, "copies": held})
		}
		cancel()
		close(release)
	})
}

func runC20(e *core.Env, n int) {
	curEnv = e
	if !e.Race {
		runC20FanIn(e)
	}
	inp := NewInproc(&Service{}, carrierOpt{})
	defer inp.Close()
	e.Cases("stall", n, func(i int, r *rand.Rand) {
		toServer := i%2 == 0
		k := pick(r, 0, 1, 2, 5)
		nsend := pick(r, 1, 2, 3, 4, 8, 20, 200)
		release := pick(r, "recv", "finish", "cancel")
		hdr := r.Intn(2) == 0
		tag := fmt.Sprintf("%016x", r.Uint64())
		sc := &Script{}
		var sends []Op
		for j := 0; j < nsend; j++ {
			sends = append(sends, Op{Op: "send", Msg: genMsg(r, fmt.Sprintf("%s/%d", tag, j), false)})
		}
		if toServer {
			sc.Kind = pick(r, ClientStream, Bidi)
			if release != "recv" && r.Intn(4) == 0 {
				// a method that takes a single request, driven through the raw stream API by a client that keeps
				// sending: what the handler does not take is not accepted without bound either
				sc.Kind = ServerStream
			}
			sc.Sender = append(sends, Op{Op: "close"})
			for j := 0; j < k; j++ {
				sc.Handler = append(sc.Handler, Op{Op: "recv"})
			}
			sc.Handler = append(sc.Handler, Op{Op: "gate", Gate: "stall"})
			if release == "recv" {
				sc.Handler = append(sc.Handler, Op{Op: "recvall"})
			}
			if sc.Kind == ClientStream {
				sc.Handler = append(sc.Handler, Op{Op: "send", Msg: genMsg(r, tag+"/resp", false)})
			}
			if sc.Kind == Bidi && release != "finish" && r.Intn(3) == 0 {
				// the handler is parked inside a blocked SendMsg (the client is not receiving) instead of at a gate
				sc.Handler = sc.Handler[:k]
				for j := 0; j < 3; j++ {
					sc.Handler = append(sc.Handler, Op{Op: "send", Msg: genMsg(r, fmt.Sprintf("%s/h%d", tag, j), false)})
				}
				if release == "recv" {
					sc.Handler = append(sc.Handler, Op{Op: "recvall"})
				}
			}
			sc.Receiver = []Op{{Op: "gate", Gate: "client-may-recv"}, {Op: "recvall"}}
			if release == "finish" && r.Intn(2) == 0 {
				// the peer finishes with several final frames while the client is not receiving at all
				// (the handler sends no message here, so nothing depends on how much the stream buffers)
				sc.Receiver = []Op{{Op: "recvall"}}
				sc.RecvAfterSend = true
				if n := len(sc.Handler); n > 0 && sc.Handler[n-1].Op == "send" {
					sc.Handler = sc.Handler[:n-1]
				}
				sc.Handler = append(sc.Handler, Op{Op: "settrl", MD: metadata.MD{"final": {"trailer"}}})
				sc.Ret = Ret{How: "status", Code: 10, Msg: "handler gave up"}
			}
		} else {
			sc.Kind = pick(r, ServerStream, Bidi)
			if sc.Kind == ServerStream {
				sc.Sender = []Op{{Op: "send", Msg: genMsg(r, tag+"/req", false)}, {Op: "close"}}
				sc.Handler = []Op{{Op: "recv"}}
			} else {
				sc.Sender = []Op{{Op: "close"}}
				sc.Handler = []Op{{Op: "recvall"}}
			}
			if hdr {
				sc.Handler = append(sc.Handler, Op{Op: "sethdr", MD: metadata.MD{"pending": {"header"}}})
			}
			sc.Handler = append(sc.Handler, sends...)
			for nh := pick(r, 0, 0, 0, 1, 2, 3); nh > 0; nh-- {
				// Header() may be asked for several times (interceptor + application); only the first can count as a receive
				sc.Receiver = append(sc.Receiver, Op{Op: "header"})
			}
			for j := 0; j < k; j++ {
				sc.Receiver = append(sc.Receiver, Op{Op: "recv"})
			}
			if k > 0 && r.Intn(4) == 0 {
				// the last receive before the stall fails on the client's own side (a destination the cloner
				// refuses): the client has still received nothing more, and the sender is held back as before
				sc.Receiver[len(sc.Receiver)-1].Op = "recv-wrong"
			}
			sc.Receiver = append(sc.Receiver, Op{Op: "gate", Gate: "stall"})
			if release == "recv" || release == "finish" {
				sc.Receiver = append(sc.Receiver, Op{Op: "recvall"})
			}
		}
		if r.Intn(3) == 0 {
			// callers that ask for the response headers through the call option
			sc.NHdrOpt = 1
		}
		e.Note("%s dir=%v k=%d n=%d release=%s hdr=%v", sc.Kind, toServer, k, nsend, release, hdr)
		run := inp.Svc.NewRun(sc, "inproc")
		done := make(chan struct{})
		var completed bool
		go func() {
			completed, _ = run.Exec(inp.CC, nil, watchdog)
			close(done)
		}()
		stalled, inSend := waitStalled(run, done)
		sendsAtStall := run.CSendDone.Load()
		if !toServer {
			sendsAtStall = run.HSendDone.Load()
		}
		if stalled && inSend {
			e.Count("stalled_sender_observed_parked_in_SendMsg", 1)
		}
		if stalled {
			e.Count("stalls", 1)
		}
		// apply the release event
		switch release {
		case "cancel":
			if run.Cancel != nil {
				run.Cancel()
			}
			time.Sleep(2 * time.Millisecond)
			run.ReleaseAll()
		default:
			run.ReleaseAll()
		}
		<-done
		run.Cancel()
		inp.Svc.Forget(run)
		dir := "to-client"
		if toServer {
			dir = "to-server"
		}
		e.Eval(fmt.Sprintf("%s|%s|k=%d|n=%d|hdr=%v|%s", dir, sc.Kind, k, min(nsend, 9), hdr, release), nsend > k+1)
		w := map[string]any{"script": sc, "events": run.Events(), "sends_completed_at_stall": sendsAtStall, "k": k, "release": release}
		if !completed {
			e.Violate("backpressure/"+dir+"/blocked-send-not-released/"+release, fmt.Sprintf("after %q the run did not finish: a blocked operation was not resumed", release), w)
			run.ReleaseAll()
			return
		}
		if release == "recv" {
			// backpressure means waiting, not failing: once the receiver goes on, every send has succeeded and
			// every message has arrived
			sWho, rWho := "h", "cr"
			if toServer {
				sWho, rWho = "cs", "h"
			}
			failed, arrived := 0, 0
			var firstErr error
			for _, ev := range run.Rets(sWho, "send") {
				if ev.Err != nil || ev.Pan != "" {
					failed++
					if firstErr == nil {
						firstErr = ev.Err
					}
				}
			}
			for _, ev := range run.Rets(rWho, "recv") {
				if ev.Msg != nil {
					arrived++
				}
			}
			// (a receive that the receiver itself made fail may or may not have used up the message it was offered)
			selfFailed := len(run.Rets(rWho, "recv-wrong"))
			if failed > 0 {
				e.Violate("backpressure/"+dir+"/send-failed-instead-of-waiting", fmt.Sprintf("%d of %d sends failed (%v) although the receiver only paused after %d receives and then received everything offered", failed, nsend, firstErr, k), w)
			} else if arrived > nsend || arrived+selfFailed < nsend {
				e.Violate("backpressure/"+dir+"/not-all-delivered", fmt.Sprintf("%d sends succeeded but %d messages arrived after the receiver went on", nsend, arrived), w)
			}
		}
		run.leadMu.Lock()
		lead := append([]string(nil), run.Lead...)
		run.leadMu.Unlock()
		if len(lead) > 0 {
			e.Violate("backpressure/"+dir+"/sender-ran-ahead", fmt.Sprintf("%s (attempted %d sends, receiver stalled after %d receives, headers pending=%v)", lead[0], nsend, k, hdr), w)
		}
		if i < 3 {
			e.Sample(map[string]any{"direction": dir, "kind": sc.Kind.String(), "attempted_sends": nsend, "receiver_stalls_after": k, "release": release, "sends_completed_at_stall": sendsAtStall})
		}
	})

	// the two directions are independent, and a peer that has given up releases the other side
	e.Cases("peer-behaviour", e.N(40, 400), func(i int, r *rand.Rand) {
		tag := fmt.Sprintf("%016x", r.Uint64())
		sc := &Script{}
		variant := []string{"independent-directions", "peer-gave-up", "helper-blocked-at-return"}[i%3]
		nsend := 0
		switch variant {
		case "independent-directions":
			// a full-duplex handler: one goroutine pushes responses nobody takes yet, the handler itself receives;
			// the client says everything it has to say before it starts to listen
			nsend = pick(r, 2, 3, 5, 9)
			sc.Kind = Bidi
			for j := 0; j < nsend; j++ {
				sc.Sender = append(sc.Sender, Op{Op: "send", Msg: genMsg(r, fmt.Sprintf("%s/%d", tag, j), false)})
			}
			sc.Sender = append(sc.Sender, Op{Op: "close"})
			sc.Receiver = []Op{{Op: "recvall"}}
			sc.RecvAfterSend = true
			sc.Handler = []Op{{Op: "bg-sends", Msg: genMsg(r, tag+"/pushed", false)}, {Op: "recvall"}}
		case "helper-blocked-at-return":
			// the handler returns while a helper goroutine of its own is blocked inside SendMsg (the client is not
			// listening yet) and the client is blocked inside SendMsg too (the handler has stopped receiving):
			// "the peer finishes" releases the client's send; it then listens, which releases the helper
			nsend = pick(r, 4, 6, 10)
			sc.Kind = Bidi
			for j := 0; j < nsend; j++ {
				sc.Sender = append(sc.Sender, Op{Op: "send", Msg: genMsg(r, fmt.Sprintf("%s/%d", tag, j), false)})
			}
			sc.Sender = append(sc.Sender, Op{Op: "close"})
			sc.Receiver = []Op{{Op: "recvall"}}
			sc.RecvAfterSend = true
			sc.Handler = []Op{{Op: "bg-pusher", Msg: genMsg(r, tag+"/pushed", false)}}
			for j := r.Intn(3); j > 0; j-- {
				sc.Handler = append(sc.Handler, Op{Op: "recv"})
			}
			// (returns only once helper and client are parked: the gate is opened when the run has gone quiet)
			sc.Handler = append(sc.Handler, Op{Op: "gate", Gate: "both-parked"})
		case "peer-gave-up":
			// a single-response method whose handler keeps producing responses: the client fails the call after the
			// second one and stops listening; the handler's sends then end (with an error) although the caller's
			// context lives on
			sc.Kind = ClientStream
			sc.Sender = []Op{{Op: "send", Msg: genMsg(r, tag+"/req", false)}, {Op: "close"}}
			sc.Receiver = []Op{{Op: "recv"}}
			sc.RecvAfterSend = true
			sc.Handler = []Op{{Op: "recvall"}}
			for j := 0; j < 12; j++ {
				sc.Handler = append(sc.Handler, Op{Op: "send", Msg: genMsg(r, fmt.Sprintf("%s/resp%d", tag, j), false)})
			}
		}
		run := inp.Svc.NewRun(sc, "inproc")
		done := make(chan struct{})
		go func() {
			run.Exec(inp.CC, nil, 10*time.Minute)
			close(done)
		}()
		if variant == "helper-blocked-at-return" {
			if stalled, _ := waitStalled(run, done); stalled {
				e.Count("helper_and_client_parked_at_return", 1)
			}
			run.Release("both-parked")
		}
		fin, stuck, dump := waitDoneOrStuck(done, 60*time.Second)
		e.Eval("peer-behaviour|"+variant+fmt.Sprintf("|n=%d", nsend), true)
		w := map[string]any{"script": sc, "events": run.Events()}
		if !fin {
			run.Cancel()
			run.ReleaseAll()
			<-done
			inp.Svc.Forget(run)
			if stuck {
				w["goroutines"] = trunc(dump, 20000)
				e.Violate("backpressure/"+variant+"/stuck", fmt.Sprintf("%s: the call did not finish while the caller's context was alive: %s", variant, parkedSummary(dump)), w)
			} else {
				e.Inconclusive("C20 peer-behaviour %s: still running after 60 s", variant)
			}
			return
		}
		run.Cancel()
		inp.Svc.Forget(run)
		if variant == "peer-gave-up" {
			// the client took one response, looked at a second one and gave up; one more may sit in the buffer and one
			// may race with the client's cancellation: a handler whose sends go on succeeding is running ahead of a
			// receiver that is gone
			accepted := 0
			for _, ev := range run.Rets("h", "send") {
				if ev.Err == nil && ev.Pan == "" {
					accepted++
				}
			}
			if accepted > 4 {
				e.Violate("backpressure/peer-gave-up/sender-ran-ahead", fmt.Sprintf("%d of 12 sends of the handler succeeded although the client had stopped receiving after the second response", accepted), w)
			}
		}
		if variant == "independent-directions" {
			arrived := 0
			for _, ev := range run.Rets("h", "recv") {
				if ev.Msg != nil {
					arrived++
				}
			}
			if arrived != nsend {
				e.Violate("backpressure/independent-directions/not-all-delivered", fmt.Sprintf("the client sent %d messages while responses were piling up; the handler received %d", nsend, arrived), w)
			}
		}
	})
}
