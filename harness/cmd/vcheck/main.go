// Command vcheck runs the runtime monitors for one property.
package main

import (
	"verifharness/core"
	_ "verifharness/props"
)

func main() { core.Main() }
