package core

import (
	"bufio"
	"encoding/json"
	"fmt"
	"os"
	"os/exec"
	"path/filepath"
	"regexp"
	"runtime/debug"
	"sort"
	"strconv"
	"strings"
	"syscall"
	"time"
)

// CheckFunc is one property check. It runs inside a child process.
type CheckFunc func(e *Env)

type propInfo struct {
	fn       CheckFunc
	race     bool // thorough tier also runs the check inside the -race build
	raceOnly func(e *Env)
}

var registry = map[string]*propInfo{}

// Register makes a property check known to the driver.
func Register(id string, fn CheckFunc) { registry[id] = &propInfo{fn: fn} }

// RegisterRace registers the workload to run under the race detector in the
// thorough tier (may be the same function).
func RegisterRace(id string, fn CheckFunc) {
	registry[id].race = true
	registry[id].raceOnly = fn
}

func Props() []string {
	var out []string
	for k := range registry {
		out = append(out, k)
	}
	sort.Strings(out)
	return out
}

func verifDir() string {
	if d := os.Getenv("VERIF_DIR"); d != "" {
		return d
	}
	return "/verif"
}

// Main is the entry point of cmd/vcheck.
func Main() {
	if len(os.Args) < 2 {
		usage()
	}
	switch os.Args[1] {
	case "run":
		if len(os.Args) < 4 {
			usage()
		}
		os.Exit(parent(os.Args[2], os.Args[3], ""))
	case "replay":
		if len(os.Args) < 3 {
			usage()
		}
		os.Exit(replay(os.Args[2]))
	case "child":
		child()
	case "list":
		for _, p := range Props() {
			fmt.Println(p)
		}
	default:
		usage()
	}
}

func usage() {
	fmt.Fprintln(os.Stderr, "usage: vcheck run <Cxx> <quick|thorough> | replay <file> | list")
	os.Exit(2)
}

func seedFromEnv() int64 {
	if s := os.Getenv("VERIF_SEED"); s != "" {
		if v, err := strconv.ParseInt(s, 10, 64); err == nil {
			return v
		}
		return int64(hash64(s) >> 1)
	}
	return 1
}

// child: vcheck child <prop> <tier> <seed> <outdir> <mode> [only]
func child() {
	prop, tier := os.Args[2], os.Args[3]
	seed, _ := strconv.ParseInt(os.Args[4], 10, 64)
	outdir := os.Args[5]
	mode := os.Args[6]
	pi := registry[prop]
	if pi == nil {
		fmt.Fprintf(os.Stderr, "unknown property %s\n", prop)
		os.Exit(2)
	}
	e := NewEnv(prop, tier, seed)
	e.Race = mode == "race"
	if len(os.Args) > 7 {
		e.Only = os.Args[7]
	}
	wal, err := os.OpenFile(filepath.Join(outdir, "wal-"+mode+".txt"), os.O_CREATE|os.O_WRONLY|os.O_APPEND, 0o644)
	if err == nil {
		e.WAL = wal
	}
	resPath := filepath.Join(outdir, "result-"+mode+".json")
	// periodic snapshots so that a crash keeps the coverage seen so far
	stop := make(chan struct{})
	go func() {
		t := time.NewTicker(2 * time.Second)
		defer t.Stop()
		for {
			select {
			case <-t.C:
				e.Snapshot(false).Write(resPath)
			case <-stop:
				return
			}
		}
	}()
	debug.SetTraceback("all")
	if e.Race {
		pi.raceOnly(e)
	} else {
		pi.fn(e)
	}
	close(stop)
	if err := e.Snapshot(true).Write(resPath); err != nil {
		fmt.Fprintf(os.Stderr, "cannot write result: %v\n", err)
		os.Exit(2)
	}
	os.Exit(0)
}

type finding struct {
	prop, sig, text string
	used            bool
}

func loadFindings() []*finding {
	var out []*finding
	f, err := os.Open(filepath.Join(verifDir(), "KNOWN_FINDINGS.txt"))
	if err != nil {
		return nil
	}
	defer f.Close()
	sc := bufio.NewScanner(f)
	re := regexp.MustCompile(`^finding:\s+property=(\S+)\s+sig=(\S+)\s+(.*)$`)
	for sc.Scan() {
		if m := re.FindStringSubmatch(strings.TrimSpace(sc.Text())); m != nil {
			out = append(out, &finding{prop: m[1], sig: m[2], text: m[3]})
		}
	}
	return out
}

func runChild(exe string, env []string, args []string, logPath string, budget time.Duration) (exit int, timedOut bool) {
	lf, err := os.Create(logPath)
	if err != nil {
		return 2, false
	}
	defer lf.Close()
	cmd := exec.Command(exe, args...)
	cmd.Stdout, cmd.Stderr = lf, lf
	cmd.Env = append(os.Environ(), env...)
	cmd.SysProcAttr = &syscall.SysProcAttr{Setpgid: true}
	if err := cmd.Start(); err != nil {
		fmt.Fprintf(lf, "start failed: %v\n", err)
		return 2, false
	}
	done := make(chan error, 1)
	go func() { done <- cmd.Wait() }()
	select {
	case err := <-done:
		if err == nil {
			return 0, false
		}
		if ee, ok := err.(*exec.ExitError); ok {
			return ee.ExitCode(), false
		}
		return 2, false
	case <-time.After(budget):
		// goroutine dump first, then kill
		syscall.Kill(-cmd.Process.Pid, syscall.SIGQUIT)
		select {
		case <-done:
		case <-time.After(10 * time.Second):
			syscall.Kill(-cmd.Process.Pid, syscall.SIGKILL)
			<-done
		}
		return -1, true
	}
}

func readResult(path string) *Result {
	b, err := os.ReadFile(path)
	if err != nil {
		return nil
	}
	var r Result
	if json.Unmarshal(b, &r) != nil {
		return nil
	}
	return &r
}

func tail(path string, n int) string {
	b, err := os.ReadFile(path)
	if err != nil {
		return ""
	}
	if len(b) > n {
		b = b[len(b)-n:]
	}
	return string(b)
}

// raceIsViolation: properties for which a data race between library goroutines is itself a
// violation ("never races", "no interleaving makes the library ... panic").
var raceIsViolation = map[string]bool{"C05": true, "C06": true}

var crashRe = regexp.MustCompile(`(?m)^(panic: .*|fatal error: .*)$`)
var frameRe = regexp.MustCompile(`(?m)^(github\.com/fullstorydev/grpchan[^\s(]*)\(`)

// crashSig extracts a signature for a child crash: the panic line plus the
// first library frame.
func crashSig(log string) (sig, line string, ok bool) {
	m := crashRe.FindString(log)
	if m == "" {
		return "", "", false
	}
	idx := strings.Index(log, m)
	// the goroutine that crashed is the first block after the message; the
	// crash counts against the library only if that block has library frames
	blk := log[idx:]
	if g := strings.Index(blk, "\ngoroutine "); g >= 0 {
		blk = blk[g+1:]
		if e := strings.Index(blk, "\n\n"); e >= 0 {
			blk = blk[:e]
		}
	}
	// first frame that is neither runtime nor a panic/recover helper decides whose crash it is
	frame := ""
	for _, ln := range strings.Split(blk, "\n") {
		if ln == "" || ln[0] == '\t' || ln[0] == ' ' || strings.HasPrefix(ln, "goroutine ") {
			continue
		}
		if strings.HasPrefix(ln, "runtime.") || strings.HasPrefix(ln, "panic(") || strings.HasPrefix(ln, "runtime/") || strings.HasPrefix(ln, "internal/") || strings.HasPrefix(ln, "sync.") || strings.HasPrefix(ln, "sync/") {
			continue
		}
		if strings.Contains(ln, "props.guard") {
			continue
		}
		frame = ln
		break
	}
	fr := frameRe.FindStringSubmatch(frame + "\n")
	if fr == nil {
		// "fatal error" raised by the runtime (e.g. concurrent map writes) inside library code
		if strings.HasPrefix(m, "fatal error") {
			if fr2 := frameRe.FindStringSubmatch(blk); fr2 != nil && !strings.Contains(frame, "verifharness") {
				fr = fr2
			}
		}
		if fr == nil && strings.HasPrefix(m, "fatal error: concurrent map") {
			// the runtime names only one of the two parties. When the goroutine it names is the application
			// (the harness reading or writing a message it owns), the other party is whoever else still touches
			// that message: a goroutine of the library that is copying, merging or decoding at that moment
			for _, g := range strings.Split(log[idx:], "\n\n") {
				if !strings.HasPrefix(strings.TrimSpace(g), "goroutine ") {
					continue
				}
				if lf := frameRe.FindStringSubmatch(g); lf != nil && !strings.Contains(lf[1], "verifAt") &&
					(strings.Contains(g, "protobuf/internal/impl.") || strings.Contains(g, "protobuf/proto.") || strings.Contains(g, "runtime.mapassign") || strings.Contains(g, "reflect.Value.SetMapIndex")) {
					fr = lf
					break
				}
			}
		}
		if fr == nil {
			return "", m, false
		}
	}
	frame = fr[1]
	ml := m
	if len(ml) > 80 {
		ml = ml[:80]
	}
	ml = regexp.MustCompile(`0x[0-9a-f]+|\[[^\]]*\]|\d+`).ReplaceAllString(ml, "#")
	return "crash/" + strings.ReplaceAll(ml, " ", "_") + "@" + frame, m, true
}

func parent(prop, tier, only string) int {
	start := time.Now()
	pi := registry[prop]
	if pi == nil {
		fmt.Fprintf(os.Stderr, "unknown property %s\n", prop)
		return 2
	}
	if tier != "quick" && tier != "thorough" {
		usage()
	}
	seed := seedFromEnv()
	exe, _ := os.Executable()
	outdir, err := os.MkdirTemp("", "vcheck-"+prop+"-")
	if err != nil {
		fmt.Fprintln(os.Stderr, err)
		return 2
	}
	if os.Getenv("VCHECK_KEEP") == "" {
		defer os.RemoveAll(outdir)
	} else {
		fmt.Println("KEEPING", outdir)
	}
	replayDir := filepath.Join(verifDir(), "replays")
	if d := os.Getenv("VERIF_OUT_DIR"); d != "" {
		replayDir = filepath.Join(d, "replays")
	}
	os.MkdirAll(replayDir, 0o755)

	budget := 12 * time.Minute
	if tier == "thorough" {
		budget = 45 * time.Minute
	}
	if b := os.Getenv("VCHECK_BUDGET_S"); b != "" {
		if v, err := strconv.Atoi(b); err == nil {
			budget = time.Duration(v) * time.Second
		}
	}

	modes := []string{"normal"}
	raceBin := os.Getenv("VCHECK_RACE_BIN")
	if pi.race && raceBin != "" {
		modes = append(modes, "race")
	}

	merged := &Result{Prop: prop, Counters: map[string]int64{}}
	distinct := map[uint64]struct{}{}
	internalErr := false
	var raceReports []raceReport

	for _, mode := range modes {
		bin := exe
		var env []string
		if mode == "race" {
			bin = raceBin
			env = append(env, "GORACE=halt_on_error=0 log_path="+filepath.Join(outdir, "race"))
		}
		args := []string{"child", prop, tier, strconv.FormatInt(seed, 10), outdir, mode}
		if only != "" {
			args = append(args, only)
		}
		logPath := filepath.Join(outdir, "child-"+mode+".log")
		exit, timedOut := runChild(bin, env, args, logPath, budget)
		res := readResult(filepath.Join(outdir, "result-"+mode+".json"))
		if res != nil {
			merged.Evaluations += res.Evaluations
			for _, d := range res.Distinct {
				distinct[d] = struct{}{}
			}
			if len(merged.Samples) < 8 {
				merged.Samples = append(merged.Samples, res.Samples...)
			}
			for k, v := range res.Counters {
				if mode == "race" {
					k = "race." + k
				}
				merged.Counters[k] += v
			}
			merged.Violations = append(merged.Violations, res.Violations...)
			merged.Inconclusive = append(merged.Inconclusive, res.Inconclusive...)
			merged.Internal = append(merged.Internal, res.Internal...)
			if mode == "normal" {
				merged.Rule, merged.Assumptions, merged.Exhaustive, merged.Level = res.Rule, res.Assumptions, res.Exhaustive, res.Level
			}
		}
		if res == nil || !res.Done {
			log := tail(logPath, 1<<20)
			wal := tail(filepath.Join(outdir, "wal-"+mode+".txt"), 4096)
			if timedOut {
				merged.Inconclusive = append(merged.Inconclusive, fmt.Sprintf("%s child exceeded watchdog %v; last cases:\n%s", mode, budget, lastLines(wal, 5)))
				saveText(filepath.Join(replayDir, fmt.Sprintf("%s-%d-%s-watchdog.log", prop, seed, mode)), "WAL tail:\n"+wal+"\n\nchild log tail:\n"+log)
				internalErr = true
				continue
			}
			if sig, line, ok := crashSig(log); ok {
				merged.Violations = append(merged.Violations, Violation{
					Sig: sig, Msg: "child process died: " + line, Phase: "crash",
					Witness: map[string]any{"last_cases": lastLines(wal, 6), "log_tail": lastBytes(log, 6000), "exit": exit},
				})
				continue
			}
			merged.Internal = append(merged.Internal, fmt.Sprintf("%s child exited %d without result; log tail: %s", mode, exit, lastBytes(log, 2000)))
		}
		if mode == "race" {
			raceReports = collectRaces(outdir)
		}
	}
	for d := range distinct {
		merged.Distinct = append(merged.Distinct, d)
	}

	// race reports
	raceViol := 0
	for _, rr := range raceReports {
		merged.Counters["race.reports"] += int64(rr.count)
		switch rr.class {
		case "harness":
			merged.Internal = append(merged.Internal, "data race inside the harness:\n"+rr.text)
		case "violation":
			raceViol++
			merged.Violations = append(merged.Violations, Violation{Sig: "race/" + rr.key, Msg: "race detector: library code races with the application's use of a message", Phase: "race", Witness: rr.text})
		default:
			merged.Counters["race.library_internal_reports"] += int64(rr.count)
			if raceIsViolation[prop] {
				// a data race inside the library under this property's workload (state that the
				// property's guarantees rest on: stream/channel bookkeeping, message hand-over)
				raceViol++
				merged.Violations = append(merged.Violations, Violation{Sig: "race-internal/" + rr.key, Msg: "race detector: data race between two library goroutines", Phase: "race", Witness: rr.text})
			} else {
				fmt.Printf("RACE-NOTE property=%s %s (x%d)\n", prop, rr.key, rr.count)
			}
		}
	}

	// verdicts
	findings := loadFindings()
	exit := 0
	unknown := 0
	knownSeen := map[string]bool{}
	for i, v := range merged.Violations {
		matched := false
		for _, f := range findings {
			if f.prop == prop && sigMatch(f.sig, v.Sig) {
				matched = true
				if !knownSeen[f.sig] {
					knownSeen[f.sig] = true
					fmt.Printf("KNOWN-FINDING: property=%s %s [sig=%s]\n", prop, f.text, f.sig)
				}
				break
			}
		}
		if matched {
			merged.Counters["known_finding_hits"]++
			continue
		}
		unknown++
		path := filepath.Join(replayDir, fmt.Sprintf("%s-%d-%s-%d-%d.json", prop, seed, sanitize(v.Phase), v.Case, i))
		rp := map[string]any{"property": prop, "seed": seed, "tier": tier, "phase": v.Phase, "case": v.Case, "sig": v.Sig, "msg": v.Msg, "witness": v.Witness}
		b, _ := json.MarshalIndent(rp, "", " ")
		os.WriteFile(path, b, 0o644)
		if unknown <= 20 {
			fmt.Printf("VIOLATION property=%s replay=%s\n", prop, path)
			fmt.Printf("  sig=%s\n  %s\n", v.Sig, oneLine(v.Msg, 600))
		}
		exit = 1
	}
	for _, s := range merged.Inconclusive {
		fmt.Printf("INCONCLUSIVE property=%s %s\n", prop, oneLine(s, 400))
	}
	for _, s := range merged.Internal {
		fmt.Printf("INTERNAL-ERROR property=%s %s\n", prop, oneLine(s, 2000))
		internalErr = true
	}

	wall := time.Since(start).Seconds()
	ev := buildEvidence(merged, prop, tier, seed, wall, unknown)
	evPath := filepath.Join(verifDir(), "evidence", prop+".json")
	if d := os.Getenv("VERIF_OUT_DIR"); d != "" {
		evPath = filepath.Join(d, "evidence", prop+".json")
	}
	os.MkdirAll(filepath.Dir(evPath), 0o755)
	if b, err := json.MarshalIndent(ev, "", " "); err == nil && only == "" {
		os.WriteFile(evPath, b, 0o644)
	}
	fmt.Printf("SUMMARY property=%s tier=%s seed=%d evaluations=%d distinct_nontrivial=%d violations=%d known_hits=%d inconclusive=%d wall_s=%.1f\n",
		prop, tier, seed, merged.Evaluations, len(merged.Distinct), unknown, merged.Counters["known_finding_hits"], len(merged.Inconclusive), wall)
	if exit == 0 && only == "" && (merged.Evaluations == 0 || len(merged.Distinct) < 2) {
		fmt.Printf("INTERNAL-ERROR property=%s the monitors observed nothing (evaluations=%d distinct=%d)\n", prop, merged.Evaluations, len(merged.Distinct))
		internalErr = true
	}
	if exit == 0 && internalErr {
		return 2
	}
	return exit
}

func sigMatch(pattern, sig string) bool {
	if strings.HasSuffix(pattern, "*") {
		return strings.HasPrefix(sig, strings.TrimSuffix(pattern, "*"))
	}
	return pattern == sig
}

func sanitize(s string) string {
	return regexp.MustCompile(`[^A-Za-z0-9_.-]`).ReplaceAllString(s, "_")
}

func oneLine(s string, n int) string {
	s = strings.ReplaceAll(s, "\n", " | ")
	if len(s) > n {
		s = s[:n] + "…"
	}
	return s
}

func lastLines(s string, n int) string {
	ls := strings.Split(strings.TrimRight(s, "\n"), "\n")
	if len(ls) > n {
		ls = ls[len(ls)-n:]
	}
	return strings.Join(ls, "\n")
}

func lastBytes(s string, n int) string {
	if len(s) > n {
		return s[len(s)-n:]
	}
	return s
}

func saveText(path, s string) { os.WriteFile(path, []byte(s), 0o644) }

func buildEvidence(m *Result, prop, tier string, seed int64, wall float64, violations int) map[string]any {
	level := m.Level
	if level == "" {
		level = "exploration"
	}
	cov := map[string]any{
		"evaluations":         m.Evaluations,
		"distinct_nontrivial": len(m.Distinct),
		"rule":                m.Rule,
		"samples":             m.Samples,
		"counters":            m.Counters,
		"inconclusive":        len(m.Inconclusive),
	}
	if len(m.Samples) == 0 {
		cov["samples"] = []any{}
	}
	if m.Exhaustive {
		cov["exhaustive"] = true
	}
	if m.Assumptions == nil {
		m.Assumptions = []string{}
	}
	return map[string]any{
		"property_id": prop, "tier": tier, "seed": seed, "level": level,
		"coverage": cov, "assumptions": m.Assumptions, "wall_s": wall, "violations": violations,
	}
}

func replay(path string) int {
	b, err := os.ReadFile(path)
	if err != nil {
		fmt.Fprintln(os.Stderr, err)
		return 2
	}
	var rp struct {
		Property string `json:"property"`
		Seed     int64  `json:"seed"`
		Tier     string `json:"tier"`
		Phase    string `json:"phase"`
		Case     int    `json:"case"`
	}
	if err := json.Unmarshal(b, &rp); err != nil {
		fmt.Fprintln(os.Stderr, err)
		return 2
	}
	os.Setenv("VERIF_SEED", strconv.FormatInt(rp.Seed, 10))
	only := fmt.Sprintf("%s:%d", rp.Phase, rp.Case)
	if rp.Phase == "crash" || rp.Phase == "race" || rp.Phase == "" {
		only = ""
	}
	// (a replay never rewrites the evidence file)
	return parent(rp.Property, rp.Tier, only)
}

// ---- race report collection ----

type raceReport struct {
	key   string
	class string // "violation" | "library" | "harness"
	count int
	text  string
}

var lineNo = regexp.MustCompile(`:\d+( \+0x[0-9a-f]+)?`)

func collectRaces(dir string) []raceReport {
	files, _ := filepath.Glob(filepath.Join(dir, "race.*"))
	byKey := map[string]*raceReport{}
	for _, f := range files {
		b, err := os.ReadFile(f)
		if err != nil {
			continue
		}
		blocks := strings.Split(string(b), "WARNING: DATA RACE")
		for _, blk := range blocks[1:] {
			if i := strings.Index(blk, "=================="); i >= 0 {
				blk = blk[:i]
			}
			key, class := classifyRace(blk)
			if r, ok := byKey[key]; ok {
				r.count++
			} else {
				byKey[key] = &raceReport{key: key, class: class, count: 1, text: "WARNING: DATA RACE" + blk}
			}
		}
	}
	var out []raceReport
	for _, r := range byKey {
		out = append(out, *r)
	}
	sort.Slice(out, func(i, j int) bool { return out[i].key < out[j].key })
	return out
}

// classifyRace looks at the two access stacks of one report.
func classifyRace(blk string) (key, class string) {
	// split into the two access sections (before "Goroutine ... created at")
	secs := regexp.MustCompile(`(?m)^(Read|Write|Previous read|Previous write|Atomic read|Atomic write|Previous atomic read|Previous atomic write) at .*$`).FindAllStringIndex(blk, -1)
	var stacks []string
	for i, s := range secs {
		end := len(blk)
		if i+1 < len(secs) {
			end = secs[i+1][0]
		}
		sec := blk[s[0]:end]
		if j := strings.Index(sec, "\n\n"); j >= 0 {
			sec = sec[:j]
		}
		stacks = append(stacks, sec)
	}
	lib := func(s string) bool { return strings.Contains(s, "github.com/fullstorydev/grpchan") }
	har := func(s string) bool { return strings.Contains(s, "verifharness/") }
	mut := func(s string) bool {
		return strings.Contains(s, "verifharness/props.Mutate") || strings.Contains(s, "verifharness/props.mutate")
	}
	top := func(s string) string {
		for _, l := range strings.Split(s, "\n")[1:] {
			l = strings.TrimSpace(l)
			if l == "" || strings.HasPrefix(l, "/") {
				continue
			}
			if i := strings.Index(l, "("); i > 0 {
				l = l[:i]
			}
			return l
		}
		return "?"
	}
	firstLib := func(s string) string {
		for _, l := range strings.Split(s, "\n")[1:] {
			l = strings.TrimSpace(l)
			if strings.HasPrefix(l, "github.com/fullstorydev/grpchan") {
				if i := strings.Index(l, "("); i > 0 {
					l = l[:i]
				}
				return l
			}
		}
		return ""
	}
	if len(stacks) < 2 {
		return "unparsed", "library"
	}
	a, b := stacks[0], stacks[1]
	ka, kb := top(a), top(b)
	if fl := firstLib(a); fl != "" {
		ka = fl
	}
	if fl := firstLib(b); fl != "" {
		kb = fl
	}
	if ka > kb {
		ka, kb = kb, ka
	}
	key = lineNo.ReplaceAllString(ka+"<>"+kb, "")
	switch {
	case (lib(a) && mut(b) && !lib(b)) || (lib(b) && mut(a) && !lib(a)):
		class = "violation"
	case !lib(a) && !lib(b) && (har(a) || har(b)):
		class = "harness"
	default:
		class = "library"
	}
	return key, class
}
