// Package core holds the run environment shared by all property checks:
// case bookkeeping, evidence, violations, known findings and the child-process
// driver.
package core

import (
	"encoding/json"
	"fmt"
	"hash/fnv"
	"math/rand"
	"os"
	"sort"
	"sync"
	"sync/atomic"
	"time"
)

// Violation is one refuted case.
type Violation struct {
	Sig     string `json:"sig"`     // stable signature: input class / call site
	Msg     string `json:"msg"`     // human readable description
	Phase   string `json:"phase"`   // phase of the check that produced it
	Case    int    `json:"case"`    // case index inside the phase
	Witness any    `json:"witness"` // script / input / trace
}

// Result is what a child process writes for the parent.
type Result struct {
	Prop         string           `json:"prop"`
	Evaluations  int64            `json:"evaluations"`
	Distinct     []uint64         `json:"distinct"`
	Samples      []any            `json:"samples"`
	Counters     map[string]int64 `json:"counters"`
	Violations   []Violation      `json:"violations"`
	Inconclusive []string         `json:"inconclusive"`
	Rule         string           `json:"rule"`
	Assumptions  []string         `json:"assumptions"`
	Exhaustive   bool             `json:"exhaustive"`
	Level        string           `json:"level"`
	Internal     []string         `json:"internal"` // harness errors (never a verdict)
	Done         bool             `json:"done"`
}

// Env is handed to every property check.
type Env struct {
	Prop  string
	Tier  string
	Seed  int64
	Race  bool   // running inside the race-detector build
	Only  string // "phase:case" filter for replay, empty = all
	WAL   *os.File
	Start time.Time

	mu        sync.Mutex
	evals     int64
	distinct  map[uint64]struct{}
	samples   []any
	sampleCap int
	seen      int64
	counters  map[string]int64
	viol      []Violation
	inconcl   []string
	internal  []string
	rule      string
	assume    []string
	exhaust   bool
	level     string
	violPhase map[string]int // phase -> highest count of one signature violated in it
	violSeen  map[string]int
	curPhase  string
	curCase   int
	dsets     map[string]map[uint64]struct{}
}

func NewEnv(prop, tier string, seed int64) *Env {
	return &Env{
		Prop: prop, Tier: tier, Seed: seed, Start: time.Now(),
		distinct: map[uint64]struct{}{}, counters: map[string]int64{},
		sampleCap: 6, level: "exploration", violSeen: map[string]int{},
	}
}

func (e *Env) Thorough() bool { return e.Tier == "thorough" }

// N picks a tier dependent count.
func (e *Env) N(quick, thorough int) int {
	if e.Thorough() {
		return thorough
	}
	return quick
}

func hash64(s string) uint64 {
	h := fnv.New64a()
	h.Write([]byte(s))
	return h.Sum64()
}

// CaseRand returns the PRNG for case i of a phase. It depends only on
// (seed, property, phase, i), so a single case can be replayed.
func (e *Env) CaseRand(phase string, i int) *rand.Rand {
	s := hash64(fmt.Sprintf("%d|%s|%s|%d", e.Seed, e.Prop, phase, i))
	return rand.New(rand.NewSource(int64(s)))
}

// Cases runs fn for i in [0,n) with a per-case PRNG, honouring the replay
// filter and writing the case to the write-ahead log before executing it.
func (e *Env) Cases(phase string, n int, fn func(i int, r *rand.Rand)) {
	start := time.Now()
	for i := 0; i < n; i++ {
		if !e.Selected(phase, i) {
			continue
		}
		// a run that has already found the same violation three times in this phase and is slow (each such case
		// may cost a watchdog) stops the phase: the verdict is settled, the rest would only repeat it
		if time.Since(start) > 90*time.Second && e.repeatedViolation(phase) {
			e.Count("cases_skipped_after_repeated_violation."+phase, int64(n-i))
			break
		}
		e.Begin(phase, i, "")
		fn(i, e.CaseRand(phase, i))
	}
}

// Selected says whether case i of phase passes the replay filter.
func (e *Env) Selected(phase string, i int) bool {
	if e.Only == "" {
		return true
	}
	return e.Only == fmt.Sprintf("%s:%d", phase, i) || e.Only == phase+":*"
}

// Begin records the case about to run in the write-ahead log.
func (e *Env) Begin(phase string, i int, note string) {
	e.mu.Lock()
	e.curPhase, e.curCase = phase, i
	e.mu.Unlock()
	if e.WAL != nil {
		fmt.Fprintf(e.WAL, "%s:%d %s\n", phase, i, note)
	}
}

// Note appends free text to the write-ahead log (input about to be used).
func (e *Env) Note(format string, a ...any) {
	if e.WAL != nil {
		fmt.Fprintf(e.WAL, "  "+format+"\n", a...)
	}
}

// Eval counts one evaluated case. sig identifies the case's shape; when
// nontrivial it is added to the distinct set.
func (e *Env) Eval(sig string, nontrivial bool) {
	e.mu.Lock()
	e.evals++
	if nontrivial {
		e.distinct[hash64(sig)] = struct{}{}
	}
	e.mu.Unlock()
}

// Distinct counts distinct values per key (e.g. interleaving signatures);
// the counts appear in the evidence counters as "distinct.<key>".
func (e *Env) Distinct(key, value string) {
	e.mu.Lock()
	if e.dsets == nil {
		e.dsets = map[string]map[uint64]struct{}{}
	}
	m := e.dsets[key]
	if m == nil {
		m = map[uint64]struct{}{}
		e.dsets[key] = m
	}
	m[hash64(value)] = struct{}{}
	e.mu.Unlock()
}

func (e *Env) Count(key string, n int64) {
	e.mu.Lock()
	e.counters[key] += n
	e.mu.Unlock()
}

// Sample keeps a bounded reservoir of actual cases for the evidence file.
func (e *Env) Sample(v any) {
	e.mu.Lock()
	defer e.mu.Unlock()
	e.seen++
	if len(e.samples) < e.sampleCap {
		e.samples = append(e.samples, v)
		return
	}
	// deterministic reservoir: replace with decreasing frequency
	if e.seen&(e.seen-1) == 0 { // powers of two
		e.samples[int(e.seen)%e.sampleCap] = v
	}
}

// Violate records a refuted case. At most a few witnesses per signature are
// kept; all are counted.
func (e *Env) repeatedViolation(phase string) bool {
	e.mu.Lock()
	defer e.mu.Unlock()
	return e.violPhase[phase] >= 3
}

func (e *Env) Violate(sig, msg string, witness any) {
	e.mu.Lock()
	defer e.mu.Unlock()
	e.violSeen[sig]++
	if e.violPhase == nil {
		e.violPhase = map[string]int{}
	}
	if e.violSeen[sig] > e.violPhase[e.curPhase] {
		e.violPhase[e.curPhase] = e.violSeen[sig]
	}
	e.counters["violations_total"]++
	if e.violSeen[sig] > 3 || len(e.viol) > 200 {
		return
	}
	e.viol = append(e.viol, Violation{Sig: sig, Msg: msg, Phase: e.curPhase, Case: e.curCase, Witness: witness})
}

func (e *Env) Inconclusive(format string, a ...any) {
	e.mu.Lock()
	if len(e.inconcl) < 50 {
		e.inconcl = append(e.inconcl, fmt.Sprintf(format, a...))
	}
	e.counters["inconclusive"]++
	e.mu.Unlock()
}

// Internal records a harness problem. It makes the run fail as an internal
// error (exit 2), never as a property verdict.
func (e *Env) Internal(format string, a ...any) {
	e.mu.Lock()
	if len(e.internal) < 50 {
		e.internal = append(e.internal, fmt.Sprintf(format, a...))
	}
	e.mu.Unlock()
}

func (e *Env) SetRule(r string)       { e.mu.Lock(); e.rule = r; e.mu.Unlock() }
func (e *Env) SetLevel(l string)      { e.mu.Lock(); e.level = l; e.mu.Unlock() }
func (e *Env) SetExhaustive(b bool)   { e.mu.Lock(); e.exhaust = b; e.mu.Unlock() }
func (e *Env) Assume(a string)        { e.mu.Lock(); e.assume = append(e.assume, a); e.mu.Unlock() }
func (e *Env) Evaluations() int64     { e.mu.Lock(); defer e.mu.Unlock(); return e.evals }
func (e *Env) ViolationCount() int    { e.mu.Lock(); defer e.mu.Unlock(); return len(e.viol) }
func (e *Env) Counter(k string) int64 { e.mu.Lock(); defer e.mu.Unlock(); return e.counters[k] }

// Snapshot produces the Result for the parent.
func (e *Env) Snapshot(done bool) *Result {
	e.mu.Lock()
	defer e.mu.Unlock()
	d := make([]uint64, 0, len(e.distinct))
	for k := range e.distinct {
		d = append(d, k)
	}
	sort.Slice(d, func(i, j int) bool { return d[i] < d[j] })
	c := map[string]int64{}
	for k, v := range e.counters {
		c[k] = v
	}
	for k, m := range e.dsets {
		c["distinct."+k] = int64(len(m))
	}
	return &Result{
		Prop: e.Prop, Evaluations: e.evals, Distinct: d, Samples: append([]any(nil), e.samples...),
		Counters: c, Violations: append([]Violation(nil), e.viol...), Inconclusive: append([]string(nil), e.inconcl...),
		Rule: e.rule, Assumptions: append([]string(nil), e.assume...), Exhaustive: e.exhaust, Level: e.level,
		Internal: append([]string(nil), e.internal...), Done: done,
	}
}

func (r *Result) Write(path string) error {
	b, err := json.Marshal(r)
	if err != nil {
		// a witness that cannot be marshalled must not lose the verdict
		for i := range r.Violations {
			r.Violations[i].Witness = fmt.Sprintf("%+v", r.Violations[i].Witness)
		}
		for i := range r.Samples {
			r.Samples[i] = fmt.Sprintf("%+v", r.Samples[i])
		}
		b, err = json.Marshal(r)
		if err != nil {
			return err
		}
	}
	tmp := path + ".tmp"
	if err := os.WriteFile(tmp, b, 0o644); err != nil {
		return err
	}
	return os.Rename(tmp, path)
}

// Clock is the global logical clock used to order recorded events.
var clock atomic.Int64

func Tick() int64 { return clock.Add(1) }
func Now() int64  { return clock.Load() }
